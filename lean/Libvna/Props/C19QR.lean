/-
C19 — the Householder QR kernels: `_vnacommon_qrd` factors (`U A = R`, `U` a product of the stored reflectors, unitary) and
`_vnacommon_qrsolve` returns least-squares minimisers — for the executed definitions of Model/LinAlg.lean (the ones the driver
runs against the C), every size, exact arithmetic over any field with a conjugation (`qrd_factors`, `qrsolve_normal`) and over ℂ
with the C's own `-cexp(I carg a) sqrt s` (`complexOps_spec`, `qrsolve_least_squares`); `_vnacommon_qr` returns a unitary Q with
`Q R = A` (`qr_factors`) and `_vnacommon_qrsolve2` solves the normal equations from them (`qrsolve2_normal`, `qr_qrsolve2_normal`).
Hypotheses, stated outright: no step divides by a zero norm, no zero on the diagonal of R (the C's rank test), m ≥ n for the
least-squares statement.
-/
import Libvna.Props.C19Solve
import Mathlib.LinearAlgebra.Matrix.ConjTranspose
import Mathlib.LinearAlgebra.Matrix.DotProduct
import Mathlib.Algebra.BigOperators.Field
import Mathlib.Algebra.BigOperators.Intervals
import Mathlib.Tactic.Abel
import Mathlib.Tactic.FieldSimp
import Mathlib.Tactic.LinearCombination
import Mathlib.Data.Matrix.Mul
import Mathlib.Analysis.SpecialFunctions.Complex.Arg
import Mathlib.Analysis.SpecialFunctions.Sqrt
set_option linter.unusedSectionVars false
set_option linter.unusedVariables false

namespace Libvna.QR
open Matrix
section general
variable {K : Type} [Field K] [StarRing K] {m n : Type} [Fintype m] [DecidableEq m] [Fintype n] [DecidableEq n]

/-- the Householder reflector of a vector `v`: `1 - 2 v vᴴ` -/
def reflector (v : m → K) : Matrix m m K := 1 - (2 : K) • vecMulVec v (star v)

theorem reflector_hermitian (v : m → K) : (reflector v)ᴴ = reflector v := by
  unfold reflector
  rw [conjTranspose_sub, conjTranspose_one, conjTranspose_smul, conjTranspose_vecMulVec, star_star]
  simp

theorem vecMulVec_sq (v : m → K) (hv : star v ⬝ᵥ v = 1) :
    vecMulVec v (star v) * vecMulVec v (star v) = vecMulVec v (star v) := by
  ext i j
  simp only [mul_apply, vecMulVec_apply]
  have : ∑ k, v i * star v k * (v k * star v j) = v i * (∑ k, star v k * v k) * star v j := by
    rw [Finset.mul_sum, Finset.sum_mul]; apply Finset.sum_congr rfl; intro k _; ring
  rw [this]
  have h1 : ∑ k, star v k * v k = 1 := by simpa [dotProduct] using hv
  rw [h1]; simp

/-- a reflector of a unit vector is unitary -/
theorem reflector_unitary (v : m → K) (hv : star v ⬝ᵥ v = 1) : (reflector v)ᴴ * reflector v = 1 := by
  rw [reflector_hermitian]
  unfold reflector
  have hP := vecMulVec_sq v hv
  set P := vecMulVec v (star v)
  rw [sub_mul, mul_sub, mul_sub, one_mul, mul_one, one_mul, smul_mul_smul_comm, hP]
  rw [show (2 : K) * 2 = 2 + 2 by ring, add_smul]
  abel

theorem reflector_mulVec (v x : m → K) : reflector v *ᵥ x = x - (2 * (star v ⬝ᵥ x)) • v := by
  unfold reflector
  rw [sub_mulVec, one_mulVec, smul_mulVec, vecMulVec_mulVec]
  ext i; simp [smul_smul]

theorem sum_single_mul (i0 : m) (α : K) (f : m → K) : ∑ i, (if i = i0 then α else 0) * f i = α * f i0 := by
  rw [Finset.sum_eq_single i0]
  · simp
  · intro b _ hb; simp [hb]
  · simp

/-- **Householder's choice annihilates**: with `ᾱ α = xᴴx` and `ᾱ x₀` self-adjoint ("real"), `u = x - α e₀` and any self-adjoint `nrm`
with `nrm² = uᴴu ≠ 0`, the reflector of `u / nrm` maps `x` to `α e₀`. -/
theorem reflector_annihilates (x u : m → K) (i0 : m) (α nrm : K)
    (hu : ∀ i, u i = x i - if i = i0 then α else 0)
    (h1 : star α * α = star x ⬝ᵥ x) (h2 : star α * x i0 = star (x i0) * α)
    (hn : nrm * nrm = star u ⬝ᵥ u) (hs : star nrm = nrm) (h0 : nrm ≠ 0) (h2' : (2 : K) ≠ 0) :
    reflector (fun i => u i / nrm) *ᵥ x = fun i => if i = i0 then α else 0 := by
  rw [reflector_mulVec]
  have su : ∀ i, star (u i) = star (x i) - if i = i0 then star α else 0 := by
    intro i; rw [hu, star_sub]; split <;> simp
  have e1 : star u ⬝ᵥ x = star x ⬝ᵥ x - star α * x i0 := by
    simp only [dotProduct, Pi.star_apply, su]
    rw [← sum_single_mul i0 (star α) x, ← Finset.sum_sub_distrib]
    apply Finset.sum_congr rfl; intro i _; ring
  have e3 : star u ⬝ᵥ u = star u ⬝ᵥ x - (star (x i0) * α - star α * α) := by
    simp only [dotProduct, Pi.star_apply]
    have : ∀ i, star (u i) * u i = star (u i) * x i - (if i = i0 then α else 0) * star (u i) := by
      intro i; rw [hu i]; ring
    rw [Finset.sum_congr rfl (fun i _ => this i), Finset.sum_sub_distrib, sum_single_mul, su i0]; simp; ring
  have e2 : star u ⬝ᵥ u = 2 * (star x ⬝ᵥ x - star α * x i0) := by
    rw [e3, e1, h1, h2]; ring
  have e4 : star (fun i => u i / nrm) ⬝ᵥ x = (star u ⬝ᵥ x) / nrm := by
    simp only [dotProduct, Pi.star_apply, star_div₀, hs]
    rw [Finset.sum_div]; apply Finset.sum_congr rfl; intro i _; ring
  rw [e4]
  have hq : star x ⬝ᵥ x - star α * x i0 = nrm * nrm / 2 := by
    rw [hn, e2]; field_simp
  ext i
  simp only [Pi.sub_apply, Pi.smul_apply, smul_eq_mul]
  rw [e1, hq, hu i]; field_simp; ring


end general

section complex
variable {m n : Type} [Fintype m] [DecidableEq m] [Fintype n] [DecidableEq n]
theorem alpha_aux (E z : ℂ) (ρ σ : ℝ) (hE : star E * E = 1) (hz : z = (ρ : ℂ) * E) :
    star (-E * (σ : ℂ)) * z = star z * (-E * (σ : ℂ)) := by
  subst hz
  simp only [star_neg, star_mul', Complex.star_def, Complex.conj_ofReal]
  ring

/-- the `alpha` of `_vnacommon_qrd`: `-cexp(I carg z) sqrt(s)` has `ᾱ α = s` and `ᾱ z` real, whatever `z` and `s ≥ 0` are -/
theorem alpha_choice (z : ℂ) (s : ℝ) (hs : 0 ≤ s) :
    let α : ℂ := -Complex.exp (Complex.I * z.arg) * (Real.sqrt s : ℝ)
    star α * α = (s : ℂ) ∧ star α * z = star z * α := by
  intro α
  have hE : star (Complex.exp (Complex.I * z.arg)) * Complex.exp (Complex.I * z.arg) = 1 := by
    rw [Complex.star_def, ← Complex.exp_conj, ← Complex.exp_add]
    simp
  constructor
  · show star α * α = s
    have : star α * α = (star (Complex.exp (Complex.I * z.arg)) * Complex.exp (Complex.I * z.arg)) * ((Real.sqrt s : ℝ) * (Real.sqrt s : ℝ) : ℂ) := by
      simp only [α, star_neg, star_mul', Complex.star_def, Complex.conj_ofReal]; ring
    rw [this, hE, one_mul, ← Complex.ofReal_mul, Real.mul_self_sqrt hs]
  · have hz : z = (‖z‖ : ℝ) * Complex.exp (Complex.I * z.arg) := by
      conv_lhs => rw [← Complex.norm_mul_exp_arg_mul_I z]
      rw [mul_comm Complex.I]
    exact alpha_aux _ _ _ _ hE hz


/-- squared 2-norm of a complex vector -/
noncomputable def nrm2 (w : m → ℂ) : ℝ := (star w ⬝ᵥ w).re

theorem nrm2_nonneg (w : m → ℂ) : 0 ≤ nrm2 w := by
  unfold nrm2
  simp only [dotProduct, Pi.star_apply, Complex.re_sum]
  apply Finset.sum_nonneg; intro i _
  rw [Complex.star_def, mul_comm, Complex.mul_conj]
  simp [Complex.normSq_nonneg]

/-- **a solution of the normal equations is a least-squares minimiser** -/
theorem normal_eq_minimises (A : Matrix m n ℂ) (b : m → ℂ) (x : n → ℂ) (h : Aᴴ *ᵥ (A *ᵥ x - b) = 0) (y : n → ℂ) :
    nrm2 (A *ᵥ x - b) ≤ nrm2 (A *ᵥ y - b) := by
  set r := A *ᵥ x - b with hr
  set d := A *ᵥ (y - x) with hd
  have e : A *ᵥ y - b = r + d := by rw [hr, hd, mulVec_sub]; abel
  have ortho : star d ⬝ᵥ r = 0 := by
    rw [hd, star_mulVec, ← dotProduct_mulVec, h, dotProduct_zero]
  have ortho' : star r ⬝ᵥ d = 0 := by
    have : star r ⬝ᵥ d = star (star d ⬝ᵥ r) := by simp [dotProduct, star_sum, mul_comm]
    rw [this, ortho, star_zero]
  have : nrm2 (r + d) = nrm2 r + nrm2 d := by
    unfold nrm2
    rw [star_add, add_dotProduct, dotProduct_add, dotProduct_add, ortho, ortho']
    simp
  rw [e, this]
  linarith [nrm2_nonneg d]


end complex
end Libvna.QR


open Libvna Finset
namespace Libvna.QRLoop
open Libvna.LULoop
variable {K : Type} [Field K] [Inhabited K]

theorem getR_set (a : Array K) {m n i j i' j' : Nat} (v : K) (hs : a.size = m * n) (hi : i < m) (hj : j < n) (hj' : j' < n) :
    LA.get (LA.set a n i j v) n i' j' = if i = i' ∧ j = j' then v else LA.get a n i' j' :=
  X_set a v hs hi hj hj'

theorem sizeR_set (a : Array K) (n i j : Nat) (v : K) : (LA.set a n i j v).size = a.size := by
  unfold LA.set; simp

/-- a loop that writes column `c`, rows `r0 .. r0+cnt-1`, ascending, each value computed from the array so far -/
def colLoop (n r0 c : Nat) (f : Array K → Nat → K) : Nat → Array K → Array K
  | 0, a => a
  | k + 1, a => LA.set (colLoop n r0 c f k a) n (r0 + k) c (f (colLoop n r0 c f k a) (r0 + k))

theorem colLoop_spec (a : Array K) {m n r0 c : Nat} (f : Array K → Nat → K) (hs : a.size = m * n) (hc : c < n)
    (cnt : Nat) (hr : r0 + cnt ≤ m) :
    (colLoop n r0 c f cnt a).size = m * n ∧
    (∀ i j, i < m → j < n → ¬ (j = c ∧ r0 ≤ i ∧ i < r0 + cnt) → LA.get (colLoop n r0 c f cnt a) n i j = LA.get a n i j) ∧
    (∀ k, k < cnt → LA.get (colLoop n r0 c f cnt a) n (r0 + k) c = f (colLoop n r0 c f k a) (r0 + k)) := by
  induction cnt with
  | zero => exact ⟨hs, fun _ _ _ _ _ => rfl, fun k hk => absurd hk (Nat.not_lt_zero k)⟩
  | succ t ih =>
    obtain ⟨hs', hun, hup⟩ := ih (by omega)
    have hrm : r0 + t < m := by omega
    simp only [colLoop]
    refine ⟨by rw [sizeR_set]; exact hs', ?_, ?_⟩
    · intro i j hi hj hne
      rw [getR_set _ _ hs' hrm hc hj]
      have : ¬ (r0 + t = i ∧ c = j) := by rintro ⟨rfl, rfl⟩; exact hne ⟨rfl, by omega, by omega⟩
      rw [if_neg this]
      exact hun i j hi hj (fun h => hne ⟨h.1, h.2.1, by omega⟩)
    · intro k hk
      rw [getR_set _ _ hs' hrm hc hc]
      by_cases hkt : k = t
      · subst hkt; rw [if_pos ⟨rfl, rfl⟩]
      · have : ¬ (r0 + t = r0 + k ∧ c = c) := by rintro ⟨h, _⟩; omega
        rw [if_neg this]
        exact hup k (by omega)

end Libvna.QRLoop


namespace Libvna.QRLoop
open Libvna.LULoop Finset
variable {K : Type} [Field K] [Inhabited K]

theorem divCol_eq (n d : Nat) (nrm : K) (cnt : Nat) (a : Array K) :
    LA.divCol n d nrm cnt a = colLoop n d d (fun a' r => LA.get a' n r d / nrm) cnt a := by
  induction cnt with
  | zero => rfl
  | succ k ih => simp only [LA.divCol, colLoop, ih]

theorem colUpd_eq (n d col : Nat) (t : K) (cnt : Nat) (a : Array K) :
    LA.colUpd n d col t cnt a = colLoop n d col (fun a' r => LA.get a' n r col - (1 + 1) * t * LA.get a' n r d) cnt a := by
  induction cnt with
  | zero => rfl
  | succ k ih => simp only [LA.colUpd, colLoop, ih]

theorem bUpd_eq (a : Array K) (n o i k : Nat) (s : K) (cnt : Nat) (b : Array K) :
    LA.bUpd a n o i k s cnt b = colLoop o i k (fun b' r => LA.get b' o r k - (1 + 1) * s * LA.get a n r i) cnt b := by
  induction cnt with
  | zero => rfl
  | succ t ih => simp only [LA.bUpd, colLoop, ih]

theorem sumAbs2_eq (ops : LA.QROps K) (a : Array K) (n d cnt : Nat) :
    LA.sumAbs2 ops a n d cnt = ∑ k ∈ range cnt, ops.abs2 (LA.get a n (d + 1 + k) d) := by
  induction cnt with
  | zero => simp [LA.sumAbs2]
  | succ k ih => rw [LA.sumAbs2, ih, sum_range_succ]

theorem colDot_eq (ops : LA.QROps K) (a : Array K) (n d col cnt : Nat) :
    LA.colDot ops a n d col cnt = ∑ k ∈ range cnt, ops.conj (LA.get a n (d + k) d) * LA.get a n (d + k) col := by
  induction cnt with
  | zero => simp [LA.colDot]
  | succ k ih => rw [LA.colDot, ih, sum_range_succ]

theorem bDot_eq (ops : LA.QROps K) (a b : Array K) (n o i k cnt : Nat) :
    LA.bDot ops a b n o i k cnt = ∑ t ∈ range cnt, ops.conj (LA.get a n (i + t) i) * LA.get b o (i + t) k := by
  induction cnt with
  | zero => simp [LA.bDot]
  | succ t ih => rw [LA.bDot, ih, sum_range_succ]

/-- rows d .. d+cnt-1 of column d divided by nrm, nothing else touched -/
theorem divCol_spec (a : Array K) {m n d : Nat} (nrm : K) (hs : a.size = m * n) (hd : d < n) (cnt : Nat) (hr : d + cnt ≤ m) :
    (LA.divCol n d nrm cnt a).size = m * n ∧
    (∀ i j, i < m → j < n → LA.get (LA.divCol n d nrm cnt a) n i j =
      if j = d ∧ d ≤ i ∧ i < d + cnt then LA.get a n i d / nrm else LA.get a n i j) := by
  rw [divCol_eq]
  obtain ⟨h1, h2, h3⟩ := colLoop_spec a (fun a' r => LA.get a' n r d / nrm) hs hd cnt hr
  refine ⟨h1, ?_⟩
  intro i j hi hj
  split
  · next h =>
    obtain ⟨rfl, h1', h2'⟩ := h
    obtain ⟨k, rfl⟩ : ∃ k, i = j + k := ⟨i - j, by omega⟩
    rw [h3 k (by omega)]
    obtain ⟨_, g2, _⟩ := colLoop_spec (m := m) (r0 := j) a (fun a' r => LA.get a' n r j / nrm) hs hd k (by omega)
    show LA.get _ n (j + k) j / nrm = _
    rw [g2 (j + k) j hi hj (by rintro ⟨_, _, h⟩; omega)]
  · next h => exact h2 i j hi hj h

/-- rows d .. d+cnt-1 of column col (≠ d): `A(i,col) -= 2 t A(i,d)`, nothing else touched -/
theorem colUpd_spec (a : Array K) {m n d col : Nat} (t : K) (hs : a.size = m * n) (hd : d < n) (hcol : col < n) (hne : col ≠ d)
    (cnt : Nat) (hr : d + cnt ≤ m) :
    (LA.colUpd n d col t cnt a).size = m * n ∧
    (∀ i j, i < m → j < n → LA.get (LA.colUpd n d col t cnt a) n i j =
      if j = col ∧ d ≤ i ∧ i < d + cnt then LA.get a n i col - (1 + 1) * t * LA.get a n i d else LA.get a n i j) := by
  rw [colUpd_eq]
  obtain ⟨h1, h2, h3⟩ := colLoop_spec a (fun a' r => LA.get a' n r col - (1 + 1) * t * LA.get a' n r d) hs hcol cnt hr
  refine ⟨h1, ?_⟩
  intro i j hi hj
  split
  · next h =>
    obtain ⟨rfl, h1', h2'⟩ := h
    obtain ⟨k, rfl⟩ : ∃ k, i = d + k := ⟨i - d, by omega⟩
    rw [h3 k (by omega)]
    obtain ⟨_, g2, _⟩ := colLoop_spec (m := m) (r0 := d) a (fun a' r => LA.get a' n r j - (1 + 1) * t * LA.get a' n r d) hs hcol k (by omega)
    show LA.get _ n (d + k) j - (1 + 1) * t * LA.get _ n (d + k) d = _
    rw [g2 (d + k) j hi hj (by rintro ⟨_, _, h⟩; omega), g2 (d + k) d hi hd (by rintro ⟨h, _, _⟩; exact hne h.symm)]
  · next h => exact h2 i j hi hj h

/-- columns d+1 .. d+cnt reflected: `A(i,j) -= 2 T_j A(i,d)` for rows d ≤ i < m, `T_j = Σ_{l=d}^{m-1} conj A(l,d) A(l,j)` -/
theorem reflectCols_spec (ops : LA.QROps K) (a : Array K) {m n d : Nat} (hs : a.size = m * n) (hd : d < n) (hdm : d ≤ m)
    (cnt : Nat) (hc : d + 1 + cnt ≤ n) :
    (LA.reflectCols ops m n d cnt a).size = m * n ∧
    (∀ i j, i < m → j < n → LA.get (LA.reflectCols ops m n d cnt a) n i j =
      if d < j ∧ j < d + 1 + cnt ∧ d ≤ i then
        LA.get a n i j - (1 + 1) * (∑ k ∈ range (m - d), ops.conj (LA.get a n (d + k) d) * LA.get a n (d + k) j) * LA.get a n i d
      else LA.get a n i j) := by
  induction cnt with
  | zero =>
    refine ⟨hs, ?_⟩
    intro i j _ _
    rw [if_neg (by omega)]; rfl
  | succ c ih =>
    obtain ⟨hs', hg⟩ := ih (by omega)
    simp only [LA.reflectCols]
    have hcol : d + 1 + c < n := by omega
    obtain ⟨u1, u2⟩ := colUpd_spec (LA.reflectCols ops m n d c a) (LA.colDot ops (LA.reflectCols ops m n d c a) n d (d + 1 + c) (m - d))
      hs' hd hcol (by omega) (m - d) (by omega)
    refine ⟨u1, ?_⟩
    intro i j hi hj
    rw [u2 i j hi hj]
    by_cases hjc : j = d + 1 + c
    · subst hjc
      by_cases hdi : d ≤ i
      · rw [if_pos ⟨rfl, hdi, by omega⟩, if_pos ⟨by omega, by omega, hdi⟩, colDot_eq]
        rw [hg i _ hi hj, if_neg (by omega), hg i d hi hd, if_neg (by omega)]
        congr 2
        congr 1
        apply sum_congr rfl
        intro k hk
        have hk' : k < m - d := mem_range.mp hk
        rw [hg (d + k) d (by omega) hd, if_neg (by omega), hg (d + k) _ (by omega) hj, if_neg (by omega)]
      · rw [if_neg (by omega), if_neg (by omega), hg i _ hi hj, if_neg (by omega)]
    · rw [if_neg (by omega), hg i j hi hj]
      by_cases h : d < j ∧ j < d + 1 + c ∧ d ≤ i
      · rw [if_pos h, if_pos ⟨h.1, by omega, h.2.2⟩]
      · rw [if_neg h, if_neg (by omega)]

end Libvna.QRLoop


namespace Libvna.QRLoop
open Libvna.LULoop Finset
variable {K : Type} [Field K] [Inhabited K]

theorem dv_set (dv : Array K) {d j : Nat} (x : K) (hd : d < dv.size) :
    (dv.set! d x)[j]! = if j = d then x else dv[j]! := by
  simp only [getElem!_def, Array.set!_eq_setIfInBounds, Array.getElem?_setIfInBounds]
  by_cases h : j = d
  · subst h; simp [hd]
  · have : ¬ d = j := fun e => h e.symm
    simp [h, this]

/-- one pass of the `diagonal` loop as a function on entries: column d (rows ≥ d) becomes the normalised vector `v`, the columns to the
right (rows ≥ d) are reflected with it, `dv[d] = alpha`, nothing else changes -/
theorem qrdStep_fun (ops : LA.QROps K) (st : LA.QRState K) {m n d : Nat} (hs : st.a.size = m * n) (hdn : d < n) (hdm : d < m)
    (hdv : d < st.dv.size) :
    let G := fun i j => LA.get st.a n i j
    let alpha := ops.alpha (G d d) (ops.abs2 (G d d) + ∑ k ∈ range (m - d - 1), ops.abs2 (G (d + 1 + k) d))
    let nrm := ops.rsqrt (ops.abs2 (G d d - alpha) + ∑ k ∈ range (m - d - 1), ops.abs2 (G (d + 1 + k) d))
    let v := fun i => (if i = d then G d d - alpha else G i d) / nrm
    let st' := LA.qrdStep ops m n st d
    st'.a.size = m * n ∧ st'.dv.size = st.dv.size ∧
    (∀ j, st'.dv[j]! = if j = d then alpha else st.dv[j]!) ∧
    (∀ i j, i < m → j < n → LA.get st'.a n i j =
      if d ≤ i ∧ j = d then v i
      else if d ≤ i ∧ d < j then G i j - (1 + 1) * (∑ k ∈ range (m - d), ops.conj (v (d + k)) * G (d + k) j) * v i
      else G i j) := by
  intro G alpha nrm v st'
  have hst' : st' = LA.qrdStep ops m n st d := rfl
  unfold LA.qrdStep at hst'
  simp only [sumAbs2_eq] at hst'
  -- a1
  have s1 : (LA.set st.a n d d (G d d - alpha)).size = m * n := by rw [sizeR_set]; exact hs
  have g1 : ∀ i j, i < m → j < n → LA.get (LA.set st.a n d d (G d d - alpha)) n i j = if i = d ∧ j = d then G d d - alpha else G i j := by
    intro i j hi hj
    rw [getR_set _ _ hs hdm hdn hj]
    by_cases h : d = i ∧ d = j
    · rw [if_pos h, if_pos ⟨h.1.symm, h.2.symm⟩]
    · rw [if_neg h, if_neg (by rintro ⟨rfl, rfl⟩; exact h ⟨rfl, rfl⟩)]
  obtain ⟨s2, g2⟩ := divCol_spec (LA.set st.a n d d (G d d - alpha)) nrm s1 hdn (m - d) (by omega)
  obtain ⟨s3, g3⟩ := reflectCols_spec ops (LA.divCol n d nrm (m - d) (LA.set st.a n d d (G d d - alpha))) s2 hdn (by omega) (n - d - 1) (by omega)
  -- entries of a2
  have g2' : ∀ i j, i < m → j < n → LA.get (LA.divCol n d nrm (m - d) (LA.set st.a n d d (G d d - alpha))) n i j =
      if d ≤ i ∧ j = d then v i else G i j := by
    intro i j hi hj
    rw [g2 i j hi hj]
    by_cases h : j = d ∧ d ≤ i ∧ i < d + (m - d)
    · rw [if_pos h, if_pos ⟨h.2.1, h.1⟩, g1 i d hi hdn]
      show _ = (if i = d then G d d - alpha else G i d) / nrm
      by_cases hid : i = d
      · rw [if_pos ⟨hid, rfl⟩, if_pos hid]
      · rw [if_neg (by rintro ⟨h', _⟩; exact hid h'), if_neg hid]
    · rw [if_neg h, if_neg (by rintro ⟨h1, h2⟩; exact h ⟨h2, h1, by omega⟩), g1 i j hi hj,
        if_neg (by rintro ⟨h1, h2⟩; exact h ⟨h2, by omega, by omega⟩)]
  have ha : st'.a = LA.reflectCols ops m n d (n - d - 1) (LA.divCol n d nrm (m - d) (LA.set st.a n d d (G d d - alpha))) := by
    rw [hst']
  have hd' : st'.dv = st.dv.set! d alpha := by rw [hst']
  refine ⟨by rw [ha]; exact s3, by rw [hd']; simp, ?_, ?_⟩
  · intro j; rw [hd']; exact dv_set _ _ hdv
  · intro i j hi hj
    rw [ha, g3 i j hi hj]
    by_cases hc : d < j ∧ j < d + 1 + (n - d - 1) ∧ d ≤ i
    · rw [if_pos hc, if_neg (by omega), if_pos ⟨hc.2.2, hc.1⟩, g2' i j hi hj, if_neg (by omega), g2' i d hi hdn, if_pos ⟨hc.2.2, rfl⟩]
      congr 2
      congr 1
      apply sum_congr rfl
      intro k hk
      have hk' : k < m - d := mem_range.mp hk
      rw [g2' (d + k) d (by omega) hdn, if_pos ⟨by omega, rfl⟩, g2' (d + k) j (by omega) hj, if_neg (by omega)]
    · rw [if_neg hc, g2' i j hi hj]
      by_cases h1 : d ≤ i ∧ j = d
      · rw [if_pos h1, if_pos h1]
      · rw [if_neg h1, if_neg h1, if_neg (by omega)]

end Libvna.QRLoop


namespace Libvna.QRLoop
open Libvna.LULoop Finset Matrix
variable {K : Type} [Field K] [StarRing K] [Inhabited K]

/-- Householder's step on a column given as a function on `0 .. N-1` (range sums, as the loops compute them) -/
theorem hh_range {N : Nat} (hN : 0 < N) (x : Nat → K) (α nrm : K)
    (h1 : star α * α = ∑ t ∈ range N, star (x t) * x t) (h2 : star α * x 0 = star (x 0) * α)
    (hn : nrm * nrm = ∑ t ∈ range N, star (if t = 0 then x 0 - α else x t) * (if t = 0 then x 0 - α else x t))
    (hs : star nrm = nrm) (h0 : nrm ≠ 0) (h2' : (2 : K) ≠ 0) :
    (∑ t ∈ range N, star ((if t = 0 then x 0 - α else x t) / nrm) * ((if t = 0 then x 0 - α else x t) / nrm) = 1) ∧
    ∀ t, t < N → x t - (1 + 1) * (∑ s ∈ range N, star ((if s = 0 then x 0 - α else x s) / nrm) * x s) *
        ((if t = 0 then x 0 - α else x t) / nrm) = if t = 0 then α else 0 := by
  set u : Nat → K := fun t => if t = 0 then x 0 - α else x t with hu
  constructor
  · have : ∀ t, star (u t / nrm) * (u t / nrm) = (star (u t) * u t) / (nrm * nrm) := by
      intro t; rw [star_div₀, hs]; field_simp
    rw [sum_congr rfl (fun t _ => this t), ← sum_div, ← hn]
    field_simp
  · intro t ht
    have key := QR.reflector_annihilates (m := Fin N) (fun i => x i) (fun i => u i) ⟨0, hN⟩ α nrm
      (by
        intro i
        show u i = x i - _
        by_cases hi : (i : Nat) = 0
        · have : i = ⟨0, hN⟩ := Fin.ext hi
          rw [if_pos this]; simp only [hu, hi, if_true]
        · have : ¬ i = ⟨0, hN⟩ := fun e => hi (by rw [e])
          rw [if_neg this]; simp only [hu, hi, if_false]; ring)
      (by rw [h1]; simp only [dotProduct, Pi.star_apply]; exact (Fin.sum_univ_eq_sum_range (fun t => star (x t) * x t) N).symm)
      h2
      (by rw [hn]; simp only [dotProduct, Pi.star_apply]; exact (Fin.sum_univ_eq_sum_range (fun t => star (u t) * u t) N).symm)
      hs h0 h2'
    rw [QR.reflector_mulVec] at key
    have key' := congrFun key ⟨t, ht⟩
    simp only [Pi.sub_apply, Pi.smul_apply, smul_eq_mul, dotProduct, Pi.star_apply] at key'
    rw [Fin.sum_univ_eq_sum_range (fun s => star (u s / nrm) * x s) N] at key'
    have e : ∀ s, (if s = 0 then x 0 - α else x s) = u s := fun s => rfl
    simp only [e]
    by_cases ht0 : t = 0
    · subst ht0
      rw [if_pos rfl] at key' ⊢
      linear_combination key'
    · rw [if_neg (by intro e; exact ht0 (Fin.mk.inj e))] at key'
      rw [if_neg ht0]
      linear_combination key'

end Libvna.QRLoop


namespace Libvna.QRLoop
open Libvna.LULoop Finset Matrix
variable {K : Type} [Field K] [StarRing K] [Inhabited K]

/-- what the proof needs of the four non-field operations; `P` marks the scalars that are sums of squared moduli -/
structure OpsSpec (ops : LA.QROps K) (P : K → Prop) : Prop where
  conj_eq : ∀ z, ops.conj z = star z
  abs2_eq : ∀ z, ops.abs2 z = star z * z
  P_zero : P 0
  P_add : ∀ s t, P s → P t → P (s + t)
  P_abs2 : ∀ z, P (star z * z)
  alpha_norm : ∀ a s, P s → star (ops.alpha a s) * ops.alpha a s = s
  alpha_real : ∀ a s, P s → star (ops.alpha a s) * a = star a * ops.alpha a s
  rsqrt_sq : ∀ s, P s → ops.rsqrt s * ops.rsqrt s = s
  rsqrt_real : ∀ s, P s → star (ops.rsqrt s) = ops.rsqrt s

theorem P_sum {ops : LA.QROps K} {P : K → Prop} (h : OpsSpec ops P) (f : Nat → K) (N : Nat) : P (∑ t ∈ range N, star (f t) * f t) := by
  induction N with
  | zero => simpa using h.P_zero
  | succ k ih => rw [sum_range_succ]; exact h.P_add _ _ ih (h.P_abs2 _)

theorem sum_fin_shift {m k : Nat} (hk : k ≤ m) (f : Nat → K) :
    ∑ i : Fin m, (if (i : Nat) < k then 0 else f i) = ∑ t ∈ range (m - k), f (k + t) := by
  rw [Fin.sum_univ_eq_sum_range (fun i => if i < k then 0 else f i) m, range_eq_Ico,
    ← sum_Ico_consecutive _ (Nat.zero_le k) hk]
  have z : ∑ i ∈ Ico 0 k, (if i < k then 0 else f i) = 0 := by
    apply sum_eq_zero; intro i hi; rw [if_pos (mem_Ico.mp hi).2]
  rw [z, zero_add, sum_Ico_eq_sum_range]
  apply sum_congr rfl; intro t _; rw [if_neg (by omega)]

theorem reflector_mul_apply {m n : Nat} (v : Fin m → K) (W : Matrix (Fin m) (Fin n) K) (i : Fin m) (j : Fin n) :
    (QR.reflector v * W) i j = W i j - (1 + 1) * v i * ∑ l, star (v l) * W l j := by
  unfold QR.reflector
  rw [Matrix.sub_mul, Matrix.one_mul, Matrix.smul_mul, Matrix.sub_apply, Matrix.smul_apply, Matrix.mul_apply]
  simp only [vecMulVec_apply, Pi.star_apply, smul_eq_mul]
  rw [mul_sum, mul_sum]
  congr 1
  apply sum_congr rfl; intro l _; ring

theorem split_sum (f : Nat → K) {N : Nat} (hN : 0 < N) : ∑ t ∈ range N, f t = f 0 + ∑ q ∈ range (N - 1), f (q + 1) := by
  obtain ⟨M, rfl⟩ : ∃ M, N = M + 1 := ⟨N - 1, by omega⟩
  rw [sum_range_succ', add_comm]; simp

/-- the stored reflector vector of step `d`: zero above row `d`, column `d` of the array from row `d` down -/
def vvec (a : Array K) (m n d : Nat) : Fin m → K := fun i => if (i : Nat) < d then 0 else LA.get a n i d

/-- `H_{k-1} ⋯ H_0` -/
def Uprod (a : Array K) (m n : Nat) : Nat → Matrix (Fin m) (Fin m) K
  | 0 => 1
  | k + 1 => QR.reflector (vvec a m n k) * Uprod a m n k

theorem Uprod_congr (a a' : Array K) (m n k : Nat) (h : ∀ d, d < k → vvec a' m n d = vvec a m n d) :
    Uprod a' m n k = Uprod a m n k := by
  induction k with
  | zero => rfl
  | succ t ih => simp only [Uprod]; rw [h t (Nat.lt_succ_self t), ih (fun d hd => h d (by omega))]

theorem Uprod_unitary (a : Array K) (m n k : Nat) (h : ∀ d, d < k → star (vvec a m n d) ⬝ᵥ vvec a m n d = 1) :
    (Uprod a m n k)ᴴ * Uprod a m n k = 1 := by
  induction k with
  | zero => simp [Uprod]
  | succ t ih =>
    simp only [Uprod]
    rw [conjTranspose_mul, Matrix.mul_assoc, ← Matrix.mul_assoc _ (QR.reflector _), QR.reflector_unitary _ (h t (Nat.lt_succ_self t)),
      Matrix.one_mul, ih (fun d hd => h d (by omega))]

def A0mat (a0 : Array K) (m n : Nat) : Matrix (Fin m) (Fin n) K := fun i j => LA.get a0 n i j

/-- the upper-triangular factor as stored after k steps: columns < k hold R (diagonal in `dv`), the rest is the working matrix -/
def Rfun (a dv : Array K) (n k i j : Nat) : K :=
  if j < k then (if i < j then LA.get a n i j else if i = j then dv[j]! else 0) else LA.get a n i j

structure Inv (a0 : Array K) (m n k : Nat) (st : LA.QRState K) : Prop where
  size_a : st.a.size = m * n
  size_dv : st.dv.size = min m n
  unit : ∀ d, d < k → star (vvec st.a m n d) ⬝ᵥ vvec st.a m n d = 1
  prod : ∀ (i : Fin m) (j : Fin n), (Uprod st.a m n k * A0mat a0 m n) i j = Rfun st.a st.dv n k i j

/-- the norm the step at `d` divides by -/
def stepNrm (ops : LA.QROps K) (m n : Nat) (st : LA.QRState K) (d : Nat) : K :=
  let G := fun i j => LA.get st.a n i j
  let alpha := ops.alpha (G d d) (ops.abs2 (G d d) + ∑ k ∈ range (m - d - 1), ops.abs2 (G (d + 1 + k) d))
  ops.rsqrt (ops.abs2 (G d d - alpha) + ∑ k ∈ range (m - d - 1), ops.abs2 (G (d + 1 + k) d))

end Libvna.QRLoop


namespace Libvna.QRLoop
open Libvna.LULoop Finset Matrix
variable {K : Type} [Field K] [StarRing K] [Inhabited K]

theorem qrdStep_inv (ops : LA.QROps K) {P : K → Prop} (hops : OpsSpec ops P) (h2 : (2 : K) ≠ 0)
    (a0 : Array K) {m n k : Nat} (st : LA.QRState K) (hk : k < min m n)
    (hinv : Inv a0 m n k st) (hnz : stepNrm ops m n st k ≠ 0) :
    Inv a0 m n (k + 1) (LA.qrdStep ops m n st k) := by
  have hkm : k < m := by omega
  have hkn : k < n := by omega
  obtain ⟨hsa, hsd, hunit, hprod⟩ := hinv
  obtain ⟨sa', sd', hdv', hG'⟩ := qrdStep_fun ops st hsa hkn hkm (by omega)
  -- names
  set G : Nat → Nat → K := fun i j => LA.get st.a n i j with hGdef
  set N := m - k with hN
  have hNpos : 0 < N := by omega
  set x : Nat → K := fun t => G (k + t) k with hx
  -- the scalar arguments are sums of squares
  have hsum1 : ops.abs2 (G k k) + ∑ q ∈ range (m - k - 1), ops.abs2 (G (k + 1 + q) k) = ∑ t ∈ range N, star (x t) * x t := by
    rw [split_sum (fun t => star (x t) * x t) hNpos, hops.abs2_eq]
    simp only [hx, Nat.add_zero]
    congr 1
    apply sum_congr rfl; intro q _
    rw [hops.abs2_eq, show k + 1 + q = k + (q + 1) by omega]
  set alpha := ops.alpha (G k k) (ops.abs2 (G k k) + ∑ q ∈ range (m - k - 1), ops.abs2 (G (k + 1 + q) k)) with halpha
  set u : Nat → K := fun t => if t = 0 then x 0 - alpha else x t with hu
  have hsum2 : ops.abs2 (G k k - alpha) + ∑ q ∈ range (m - k - 1), ops.abs2 (G (k + 1 + q) k) = ∑ t ∈ range N, star (u t) * u t := by
    rw [split_sum (fun t => star (u t) * u t) hNpos, hops.abs2_eq]
    simp only [hu, hx, Nat.add_zero, if_true]
    congr 1
    apply sum_congr rfl; intro q _
    rw [hops.abs2_eq, show k + 1 + q = k + (q + 1) by omega, if_neg (by omega)]
  set nrm := ops.rsqrt (ops.abs2 (G k k - alpha) + ∑ q ∈ range (m - k - 1), ops.abs2 (G (k + 1 + q) k)) with hnrm
  have hnz' : nrm ≠ 0 := hnz
  have hP1 := P_sum hops x N
  have hP2 := P_sum hops u N
  have a1 : star alpha * alpha = ∑ t ∈ range N, star (x t) * x t := by
    rw [halpha, hsum1]; exact hops.alpha_norm _ _ hP1
  have a2 : star alpha * x 0 = star (x 0) * alpha := by
    have := hops.alpha_real (G k k) _ (hsum1 ▸ hP1)
    simpa [hx, halpha] using this
  have n1 : nrm * nrm = ∑ t ∈ range N, star (u t) * u t := by
    rw [hnrm, hsum2]; exact hops.rsqrt_sq _ hP2
  have n2 : star nrm = nrm := by
    rw [hnrm, hsum2]; exact hops.rsqrt_real _ hP2
  obtain ⟨hh1, hh2⟩ := hh_range hNpos x alpha nrm a1 a2 n1 n2 hnz' h2
  -- the normalised vector, indexed by the row
  set v : Nat → K := fun i => (if i = k then G k k - alpha else G i k) / nrm with hv
  have hvu : ∀ t, v (k + t) = u t / nrm := by
    intro t
    simp only [hv, hu, hx]
    by_cases ht : t = 0
    · subst ht; simp
    · rw [if_neg (by omega), if_neg ht]
  set st' := LA.qrdStep ops m n st k with hst'
  -- entries of the new array (qrdStep_fun, with conj = star)
  have hG : ∀ i j, i < m → j < n → LA.get st'.a n i j =
      if k ≤ i ∧ j = k then v i
      else if k ≤ i ∧ k < j then G i j - (1 + 1) * (∑ t ∈ range N, star (v (k + t)) * G (k + t) j) * v i
      else G i j := by
    intro i j hi hj
    have := hG' i j hi hj
    simp only [hops.conj_eq] at this
    exact this
  -- earlier reflector vectors are untouched
  have hvv : ∀ d, d < k → vvec st'.a m n d = vvec st.a m n d := by
    intro d hd
    funext i
    unfold vvec
    by_cases hid : (i : Nat) < d
    · rw [if_pos hid, if_pos hid]
    · rw [if_neg hid, if_neg hid, hG i d i.2 (by omega), if_neg (by omega), if_neg (by omega)]
  have hUp : Uprod st'.a m n k = Uprod st.a m n k := Uprod_congr _ _ m n k hvv
  -- the new reflector vector
  have hvk : ∀ i : Fin m, vvec st'.a m n k i = if (i : Nat) < k then 0 else v i := by
    intro i
    unfold vvec
    by_cases hik : (i : Nat) < k
    · rw [if_pos hik, if_pos hik]
    · rw [if_neg hik, if_neg hik, hG i k i.2 hkn, if_pos ⟨by omega, rfl⟩]
  have hunit' : star (vvec st'.a m n k) ⬝ᵥ vvec st'.a m n k = 1 := by
    simp only [dotProduct, Pi.star_apply, hvk]
    have : ∀ i : Fin m, star (if (i : Nat) < k then (0 : K) else v i) * (if (i : Nat) < k then 0 else v i)
        = if (i : Nat) < k then 0 else star (v i) * v i := by
      intro i; split <;> simp
    rw [Finset.sum_congr rfl (fun i _ => this i), sum_fin_shift (by omega : k ≤ m) (fun i => star (v i) * v i)]
    simp only [hvu]
    exact hh1
  refine ⟨sa', by rw [sd']; exact hsd, ?_, ?_⟩
  · intro d hd
    by_cases hdk : d = k
    · subst hdk; exact hunit'
    · rw [hvv d (by omega)]; exact hunit d (by omega)
  · intro i j
    simp only [Uprod]
    rw [Matrix.mul_assoc, hUp, reflector_mul_apply]
    -- the sum over the rows
    have hW : ∀ l : Fin m, (Uprod st.a m n k * A0mat a0 m n) l j = Rfun st.a st.dv n k l j := fun l => hprod l j
    have hsumW : ∑ l : Fin m, star (vvec st'.a m n k l) * (Uprod st.a m n k * A0mat a0 m n) l j =
        ∑ t ∈ range N, star (v (k + t)) * Rfun st.a st.dv n k (k + t) j := by
      have : ∀ l : Fin m, star (vvec st'.a m n k l) * (Uprod st.a m n k * A0mat a0 m n) l j =
          if (l : Nat) < k then 0 else star (v l) * Rfun st.a st.dv n k l j := by
        intro l; rw [hvk, hW]; split <;> simp
      rw [Finset.sum_congr rfl (fun l _ => this l), sum_fin_shift (by omega : k ≤ m) (fun l => star (v l) * Rfun st.a st.dv n k l j)]
    rw [hsumW, hW i, hvk i]
    have hi := i.2
    have hj := j.2
    rcases Nat.lt_trichotomy (j : Nat) k with hjk | hjk | hjk
    · -- a finished column: the reflector does not see it
      have z : ∑ t ∈ range N, star (v (k + t)) * Rfun st.a st.dv n k (k + t) j = 0 := by
        apply sum_eq_zero; intro t _
        have : Rfun st.a st.dv n k (k + t) j = 0 := by
          unfold Rfun
          rw [if_pos hjk, if_neg (show ¬ k + t < (j : Nat) by omega), if_neg (show ¬ k + t = (j : Nat) by omega)]
        rw [this, mul_zero]
      rw [z, mul_zero, sub_zero]
      have r1 : Rfun st.a st.dv n k i j = if (i : Nat) < j then G i j else if (i : Nat) = j then st.dv[(j : Nat)]! else 0 := by
        unfold Rfun; rw [if_pos hjk]
      have r2 : Rfun st'.a st'.dv n (k + 1) i j =
          if (i : Nat) < j then LA.get st'.a n i j else if (i : Nat) = j then st'.dv[(j : Nat)]! else 0 := by
        unfold Rfun; rw [if_pos (show (j : Nat) < k + 1 by omega)]
      rw [r1, r2, hdv' j, if_neg (show ¬ (j : Nat) = k by omega)]
      by_cases hij : (i : Nat) < j
      · rw [if_pos hij, if_pos hij, hG i j hi hj, if_neg (show ¬ (k ≤ (i : Nat) ∧ (j : Nat) = k) by omega),
          if_neg (show ¬ (k ≤ (i : Nat) ∧ k < (j : Nat)) by omega)]
      · rw [if_neg hij, if_neg hij]
    · -- the column being reduced
      have hsumx : ∑ t ∈ range N, star (v (k + t)) * Rfun st.a st.dv n k (k + t) j = ∑ t ∈ range N, star (u t / nrm) * x t := by
        apply sum_congr rfl; intro t _
        have : Rfun st.a st.dv n k (k + t) j = x t := by
          unfold Rfun; rw [if_neg (show ¬ (j : Nat) < k by omega), hjk]
        rw [this, hvu]
      rw [hsumx]
      have r1 : Rfun st.a st.dv n k i j = G i k := by
        unfold Rfun; rw [if_neg (show ¬ (j : Nat) < k by omega), hjk]
      have r2 : Rfun st'.a st'.dv n (k + 1) i j =
          if (i : Nat) < k then LA.get st'.a n i k else if (i : Nat) = k then alpha else 0 := by
        unfold Rfun; rw [if_pos (show (j : Nat) < k + 1 by omega), hdv' j, if_pos hjk, hjk]
      rw [r1, r2]
      by_cases hik : (i : Nat) < k
      · rw [if_pos hik, if_pos hik, mul_zero, zero_mul, sub_zero, hG i k hi hkn,
          if_neg (show ¬ (k ≤ (i : Nat) ∧ k = k) by omega), if_neg (show ¬ (k ≤ (i : Nat) ∧ k < k) by omega)]
      · rw [if_neg hik, if_neg hik]
        obtain ⟨t, ht⟩ : ∃ t, (i : Nat) = k + t := ⟨i - k, by omega⟩
        have key := hh2 t (by omega)
        rw [ht, hvu]
        have e : (k + t = k) = (t = 0) := by simp
        simp only [e]
        have e' : G (k + t) k = x t := rfl
        rw [e']
        have e0 : ∀ s, (if s = 0 then x 0 - alpha else x s) = u s := fun s => rfl
        simp only [e0] at key
        rw [← key]; ring
    · -- a column to the right: the update the loop made
      have hsumx : ∑ t ∈ range N, star (v (k + t)) * Rfun st.a st.dv n k (k + t) j = ∑ t ∈ range N, star (v (k + t)) * G (k + t) j := by
        apply sum_congr rfl; intro t _
        have : Rfun st.a st.dv n k (k + t) j = G (k + t) j := by
          unfold Rfun; rw [if_neg (show ¬ (j : Nat) < k by omega)]
        rw [this]
      rw [hsumx]
      have r1 : Rfun st.a st.dv n k i j = G i j := by
        unfold Rfun; rw [if_neg (show ¬ (j : Nat) < k by omega)]
      have r2 : Rfun st'.a st'.dv n (k + 1) i j = LA.get st'.a n i j := by
        unfold Rfun; rw [if_neg (show ¬ (j : Nat) < k + 1 by omega)]
      rw [r1, r2, hG i j hi hj, if_neg (show ¬ (k ≤ (i : Nat) ∧ (j : Nat) = k) by omega)]
      by_cases hik : (i : Nat) < k
      · rw [if_pos hik, if_neg (show ¬ (k ≤ (i : Nat) ∧ k < (j : Nat)) by omega), mul_zero, zero_mul, sub_zero]
      · rw [if_neg hik, if_pos ⟨by omega, hjk⟩]; ring

end Libvna.QRLoop


namespace Libvna.QRLoop
open Libvna.LULoop Finset Matrix
variable {K : Type} [Field K] [StarRing K] [Inhabited K]

def st0 (a0 : Array K) (m n : Nat) : LA.QRState K := { a := a0, dv := Array.replicate (min m n) 0 }

theorem inv_init (a0 : Array K) {m n : Nat} (hs : a0.size = m * n) : Inv a0 m n 0 (st0 a0 m n) := by
  refine ⟨hs, by simp [st0], fun d hd => absurd hd (Nat.not_lt_zero d), ?_⟩
  intro i j
  simp only [Uprod, Matrix.one_mul, A0mat, Rfun, st0]
  rw [if_neg (Nat.not_lt_zero _)]

theorem qrdLoop_inv (ops : LA.QROps K) {P : K → Prop} (hops : OpsSpec ops P) (h2 : (2 : K) ≠ 0)
    (a0 : Array K) {m n : Nat} (hs : a0.size = m * n) (k : Nat) (hk : k ≤ min m n)
    (hnz : ∀ d, d < k → stepNrm ops m n (LA.qrdLoop ops m n d (st0 a0 m n)) d ≠ 0) :
    Inv a0 m n k (LA.qrdLoop ops m n k (st0 a0 m n)) := by
  induction k with
  | zero => exact inv_init a0 hs
  | succ t ih =>
    have e : LA.qrdLoop ops m n (t + 1) (st0 a0 m n) = LA.qrdStep ops m n (LA.qrdLoop ops m n t (st0 a0 m n)) t := rfl
    rw [e]
    exact qrdStep_inv ops hops h2 a0 _ (by omega) (ih (by omega) (fun d hd => hnz d (by omega))) (hnz t (Nat.lt_succ_self t))

/-- the upper-trapezoidal factor `_vnacommon_qrd` leaves: above the diagonal in the array, the diagonal in `d` -/
def Rmat (a dv : Array K) (m n : Nat) : Matrix (Fin m) (Fin n) K :=
  fun i j => if (i : Nat) < j then LA.get a n i j else if (i : Nat) = j then dv[(j : Nat)]! else 0

/-- **`_vnacommon_qrd` factors**: for every m, n and every m×n array over a field with conjugation, if no step divides by a zero norm,
the product `U` of the reflectors stored in the returned array is unitary and `U A = R` -/
theorem qrd_factors (ops : LA.QROps K) {P : K → Prop} (hops : OpsSpec ops P) (h2 : (2 : K) ≠ 0)
    (a0 : Array K) (m n : Nat) (hs : a0.size = m * n)
    (hnz : ∀ d, d < min m n → stepNrm ops m n (LA.qrdLoop ops m n d (st0 a0 m n)) d ≠ 0) :
    let st := LA.qrd ops a0 m n
    st.a.size = m * n ∧ st.dv.size = min m n ∧
    (Uprod st.a m n (min m n))ᴴ * Uprod st.a m n (min m n) = 1 ∧
    Uprod st.a m n (min m n) * A0mat a0 m n = Rmat st.a st.dv m n := by
  intro st
  have hinv := qrdLoop_inv ops hops h2 a0 hs (min m n) (le_refl _) hnz
  have hst : st = LA.qrdLoop ops m n (min m n) (st0 a0 m n) := rfl
  rw [← hst] at hinv
  refine ⟨hinv.size_a, hinv.size_dv, Uprod_unitary _ m n _ hinv.unit, ?_⟩
  ext i j
  rw [hinv.prod i j]
  unfold Rfun Rmat
  by_cases hj : (j : Nat) < min m n
  · rw [if_pos hj]
  · rw [if_neg hj, if_pos (by have := i.2; have := j.2; omega)]

/-- from `U A = R` (U unitary, R zero below row n) and `R x = U b` on the first n rows: the normal equations -/
theorem normal_of_qr {m n : Nat} (A R : Matrix (Fin m) (Fin n) K) (U : Matrix (Fin m) (Fin m) K) (b : Fin m → K) (x : Fin n → K)
    (hU : Uᴴ * U = 1) (hUA : U * A = R) (hR : ∀ (i : Fin m) (j : Fin n), n ≤ (i : Nat) → R i j = 0)
    (hx : ∀ i : Fin m, (i : Nat) < n → (R *ᵥ x) i = (U *ᵥ b) i) :
    Aᴴ *ᵥ (A *ᵥ x - b) = 0 := by
  have hU' : U * Uᴴ = 1 := mul_eq_one_comm.mp hU
  have hA : A = Uᴴ * R := by rw [← hUA, ← Matrix.mul_assoc, hU, Matrix.one_mul]
  have e1 : A *ᵥ x - b = Uᴴ *ᵥ (R *ᵥ x - U *ᵥ b) := by
    rw [mulVec_sub, mulVec_mulVec, mulVec_mulVec, hU, one_mulVec, hA]
  have e2 : Aᴴ = Rᴴ * U := by rw [hA, conjTranspose_mul, conjTranspose_conjTranspose]
  rw [e1, e2, mulVec_mulVec, Matrix.mul_assoc, hU', Matrix.mul_one]
  ext j
  simp only [mulVec, dotProduct, conjTranspose_apply, Pi.zero_apply]
  apply Finset.sum_eq_zero
  intro i _
  by_cases hi : (i : Nat) < n
  · have := hx i hi
    simp only [Pi.sub_apply]
    rw [this, sub_self, mul_zero]
  · rw [hR i j (by omega), star_zero, zero_mul]

end Libvna.QRLoop


namespace Libvna.QRLoop
open Libvna.LULoop Finset Matrix
variable {K : Type} [Field K] [StarRing K] [Inhabited K]

/-- column kk of an m×o array as a vector -/
def bcol (b : Array K) (m o kk : Nat) : Fin m → K := fun i => LA.get b o i kk

/-- the first cnt reflectors applied to column kk of B: that column becomes `H_{cnt-1} ⋯ H_0` times itself, nothing else changes -/
theorem applyQ_spec (ops : LA.QROps K) {P : K → Prop} (hops : OpsSpec ops P) (a b : Array K) {m n o kk : Nat}
    (hb : b.size = m * o) (hkk : kk < o) (cnt : Nat) (hc : cnt ≤ min m n) :
    (LA.applyQ ops a m n o kk cnt b).size = m * o ∧
    (∀ i j, i < m → j < o → j ≠ kk → LA.get (LA.applyQ ops a m n o kk cnt b) o i j = LA.get b o i j) ∧
    (∀ i : Fin m, LA.get (LA.applyQ ops a m n o kk cnt b) o i kk = (Uprod a m n cnt *ᵥ bcol b m o kk) i) := by
  induction cnt with
  | zero =>
    refine ⟨hb, fun _ _ _ _ _ => rfl, ?_⟩
    intro i; simp [Uprod, LA.applyQ, bcol]
  | succ t ih =>
    obtain ⟨s1, u1, c1⟩ := ih (by omega)
    have htm : t < m := by omega
    simp only [LA.applyQ]
    set b' := LA.applyQ ops a m n o kk t b with hb'
    set s := LA.bDot ops a b' n o t kk (m - t) with hs
    rw [bUpd_eq]
    obtain ⟨s2, u2, w2⟩ := colLoop_spec (m := m) (r0 := t) b' (fun b'' r => LA.get b'' o r kk - (1 + 1) * s * LA.get a n r t) s1 hkk (m - t) (by omega)
    refine ⟨s2, ?_, ?_⟩
    · intro i j hi hj hne
      rw [u2 i j hi hj (by rintro ⟨h, _⟩; exact hne h), u1 i j hi hj hne]
    · intro i
      simp only [Uprod]
      rw [← mulVec_mulVec, QR.reflector_mulVec]
      simp only [Pi.sub_apply, Pi.smul_apply, smul_eq_mul]
      have hw : ∀ l : Fin m, (Uprod a m n t *ᵥ bcol b m o kk) l = LA.get b' o l kk := fun l => (c1 l).symm
      have hdot : star (vvec a m n t) ⬝ᵥ (Uprod a m n t *ᵥ bcol b m o kk) = s := by
        simp only [dotProduct, Pi.star_apply, hw]
        have : ∀ l : Fin m, star (vvec a m n t l) * LA.get b' o l kk =
            if (l : Nat) < t then 0 else star (LA.get a n l t) * LA.get b' o l kk := by
          intro l; unfold vvec; split <;> simp
        rw [Finset.sum_congr rfl (fun l _ => this l), sum_fin_shift (by omega : t ≤ m) (fun l => star (LA.get a n l t) * LA.get b' o l kk),
          hs, bDot_eq]
        apply sum_congr rfl; intro q _; rw [hops.conj_eq]
      rw [hdot, hw i]
      by_cases hit : (i : Nat) < t
      · rw [u2 i kk i.2 hkk (by rintro ⟨_, h, _⟩; omega)]
        unfold vvec; rw [if_pos hit]; ring
      · obtain ⟨q, hq⟩ : ∃ q, (i : Nat) = t + q := ⟨i - t, by omega⟩
        rw [hq, w2 q (by have := i.2; omega)]
        obtain ⟨_, g2, _⟩ := colLoop_spec (m := m) (r0 := t) b' (fun b'' r => LA.get b'' o r kk - (1 + 1) * s * LA.get a n r t) s1 hkk q (by have := i.2; omega)
        show LA.get _ o (t + q) kk - (1 + 1) * s * LA.get a n (t + q) t = _
        rw [g2 (t + q) kk (by have := i.2; omega) hkk (by rintro ⟨_, _, h⟩; omega)]
        unfold vvec; rw [if_neg (by omega), ← hq]; ring

/-- back substitution with the diagonal in `dv`: rows diag-cnt .. diag-1 of column kk of X, nothing else touched -/
theorem qrBack_spec (a dv b x : Array K) {n o kk diag : Nat} (hx : x.size = n * o) (hkk : kk < o) (hdn : diag ≤ n)
    (cnt : Nat) (hc : cnt ≤ diag) :
    (LA.qrBack a dv b n o kk diag cnt x).size = n * o ∧
    (∀ i j, i < n → j < o → ¬ (j = kk ∧ diag - cnt ≤ i ∧ i < diag) → LA.get (LA.qrBack a dv b n o kk diag cnt x) o i j = LA.get x o i j) ∧
    (∀ i, diag - cnt ≤ i → i < diag → LA.get (LA.qrBack a dv b n o kk diag cnt x) o i kk =
      (LA.get b o i kk - ∑ t ∈ range (diag - (i + 1)), LA.get a n i (i + 1 + t) * LA.get (LA.qrBack a dv b n o kk diag cnt x) o (i + 1 + t) kk)
        / dv[i]!) := by
  induction cnt with
  | zero => exact ⟨hx, fun _ _ _ _ _ => rfl, fun i h1 h2 => by omega⟩
  | succ c ih =>
    obtain ⟨s1, u1, r1⟩ := ih (by omega)
    simp only [LA.qrBack]
    set x' := LA.qrBack a dv b n o kk diag c x with hx'
    have hi0 : diag - 1 - c < n := by omega
    refine ⟨by rw [sizeR_set]; exact s1, ?_, ?_⟩
    · intro i j hi hj hne
      rw [getR_set _ _ s1 hi0 hkk hj, if_neg (by rintro ⟨rfl, rfl⟩; exact hne ⟨rfl, by omega, by omega⟩)]
      exact u1 i j hi hj (by rintro ⟨h1, h2, h3⟩; exact hne ⟨h1, by omega, h3⟩)
    · intro i h1 h2
      have hsum : ∀ i', diag - 1 - c ≤ i' → ∀ v,
          ∑ t ∈ range (diag - (i' + 1)), LA.get a n i' (i' + 1 + t) * LA.get (LA.set x' o (diag - 1 - c) kk v) o (i' + 1 + t) kk =
          ∑ t ∈ range (diag - (i' + 1)), LA.get a n i' (i' + 1 + t) * LA.get x' o (i' + 1 + t) kk := by
        intro i' hi' v
        apply sum_congr rfl; intro t ht
        have ht' := mem_range.mp ht
        rw [getR_set _ _ s1 hi0 hkk hkk, if_neg (by rintro ⟨h, _⟩; omega)]
      rw [getR_set _ _ s1 hi0 hkk hkk]
      by_cases hic : i = diag - 1 - c
      · subst hic
        rw [if_pos ⟨rfl, rfl⟩, hsum _ (le_refl _), accSub_eq]
      · rw [if_neg (by rintro ⟨h, _⟩; exact hic h.symm), hsum i (by omega)]
        exact r1 i (by omega) h2

end Libvna.QRLoop


namespace Libvna.QRLoop
open Libvna.LULoop Finset Matrix
variable {K : Type} [Field K] [StarRing K] [Inhabited K]

/-- the column loop of `_vnacommon_qrsolve` -/
theorem qrCols_spec (ops : LA.QROps K) {P : K → Prop} (hops : OpsSpec ops P) (a dv b0 x0 : Array K) {m n o : Nat}
    (hb : b0.size = m * o) (hx : x0.size = n * o) (cnt : Nat) (hc : cnt ≤ o) :
    let p := LA.qrCols ops a dv m n o cnt (b0, x0)
    p.1.size = m * o ∧ p.2.size = n * o ∧
    (∀ kk, kk < cnt → ∀ i : Fin m, LA.get p.1 o i kk = (Uprod a m n (min m n) *ᵥ bcol b0 m o kk) i) ∧
    (∀ kk, cnt ≤ kk → kk < o → ∀ i, i < m → LA.get p.1 o i kk = LA.get b0 o i kk) ∧
    (∀ kk, kk < cnt → ∀ i, i < min m n → LA.get p.2 o i kk =
      (LA.get p.1 o i kk - ∑ t ∈ range (min m n - (i + 1)), LA.get a n i (i + 1 + t) * LA.get p.2 o (i + 1 + t) kk) / dv[i]!) ∧
    (∀ kk, cnt ≤ kk → kk < o → ∀ i, i < n → LA.get p.2 o i kk = LA.get x0 o i kk) := by
  induction cnt with
  | zero =>
    refine ⟨hb, hx, fun kk h => absurd h (Nat.not_lt_zero kk), fun _ _ _ _ _ => rfl, fun kk h => absurd h (Nat.not_lt_zero kk), fun _ _ _ _ _ => rfl⟩
  | succ c ih =>
    obtain ⟨sb, sx, hU, hbu, hrec, hxu⟩ := ih (by omega)
    have hco : c < o := by omega
    simp only [LA.qrCols]
    set p := LA.qrCols ops a dv m n o c (b0, x0) with hp
    obtain ⟨q1, q2, q3⟩ := applyQ_spec ops hops a p.1 sb hco (min m n) (le_refl _)
    set b' := LA.applyQ ops a m n o c (min m n) p.1 with hb'
    obtain ⟨r1, r2, r3⟩ := qrBack_spec a dv b' p.2 sx hco (Nat.min_le_right m n) (min m n) (le_refl _)
    set x' := LA.qrBack a dv b' n o c (min m n) (min m n) p.2 with hx'
    have hcol : bcol p.1 m o c = bcol b0 m o c := by
      funext i; exact hbu c (le_refl _) hco i i.2
    refine ⟨q1, r1, ?_, ?_, ?_, ?_⟩
    · intro kk hkk i
      by_cases h : kk = c
      · subst h; rw [q3 i, hcol]
      · rw [q2 i kk i.2 (by omega) h]; exact hU kk (by omega) i
    · intro kk h1 h2 i hi
      rw [q2 i kk hi h2 (by omega)]; exact hbu kk (by omega) h2 i hi
    · intro kk hkk i hi
      by_cases h : kk = c
      · subst h
        rw [r3 i (by omega) hi]
      · have hn : i < n := lt_of_lt_of_le hi (Nat.min_le_right m n)
        rw [r2 i kk hn (by omega) (by rintro ⟨h', _⟩; exact h h'), q2 i kk (lt_of_lt_of_le hi (Nat.min_le_left m n)) (by omega) h,
          hrec kk (by omega) i hi]
        congr 2
        apply sum_congr rfl; intro t ht
        have ht' := mem_range.mp ht
        rw [r2 (i + 1 + t) kk (by omega) (by omega) (by rintro ⟨h', _⟩; exact h h')]
    · intro kk h1 h2 i hi
      rw [r2 i kk hi h2 (by rintro ⟨h', _⟩; omega)]; exact hxu kk (by omega) h2 i hi

/-- **`_vnacommon_qrsolve` returns a solution of the normal equations** (m ≥ n, exact arithmetic): for every column of B,
`Aᴴ (A x - b) = 0`, provided no step of the factorisation divides by a zero norm and no diagonal entry of R is zero -/
theorem qrsolve_normal (ops : LA.QROps K) {P : K → Prop} (hops : OpsSpec ops P) (h2 : (2 : K) ≠ 0)
    (a0 b0 : Array K) (m n o : Nat) (hs : a0.size = m * n) (hb : b0.size = m * o) (hmn : n ≤ m)
    (hnz : ∀ d, d < min m n → stepNrm ops m n (LA.qrdLoop ops m n d (st0 a0 m n)) d ≠ 0)
    (hd : ∀ i, i < n → (LA.qrd ops a0 m n).dv[i]! ≠ 0) (kk : Nat) (hkk : kk < o) :
    (A0mat a0 m n)ᴴ *ᵥ (A0mat a0 m n *ᵥ (fun j : Fin n => LA.get (LA.qrsolve ops a0 b0 m n o).1 o j kk) - bcol b0 m o kk) = 0 := by
  obtain ⟨sa, sd, hU, hUA⟩ := qrd_factors ops hops h2 a0 m n hs hnz
  set st := LA.qrd ops a0 m n with hst
  have hr : min m n = n := Nat.min_eq_right hmn
  obtain ⟨_, _, hUb, _, hrec, _⟩ := qrCols_spec ops hops st.a st.dv b0 (Array.replicate (n * o) (0 : K)) (m := m) (n := n) hb (by simp) o (le_refl _)
  have hX : (LA.qrsolve ops a0 b0 m n o).1 = (LA.qrCols ops st.a st.dv m n o o (b0, Array.replicate (n * o) 0)).2 := rfl
  rw [hX]
  set p := LA.qrCols ops st.a st.dv m n o o (b0, Array.replicate (n * o) 0) with hp
  apply normal_of_qr (A0mat a0 m n) (Rmat st.a st.dv m n) (Uprod st.a m n (min m n)) _ _ hU hUA
  · intro i j hi
    unfold Rmat
    rw [if_neg (by have := j.2; omega), if_neg (by have := j.2; omega)]
  · intro i hi
    have hrec' := hrec kk hkk i (by omega)
    rw [hr] at hrec'
    rw [← hUb kk hkk i]
    have hdi := hd i hi
    simp only [mulVec, dotProduct]
    have split : ∀ j : Fin n, Rmat st.a st.dv m n i j * LA.get p.2 o j kk =
        (if (i : Nat) < (j : Nat) then LA.get st.a n i j * LA.get p.2 o j kk else 0) +
        (if (i : Nat) = (j : Nat) then st.dv[(i : Nat)]! * LA.get p.2 o i kk else 0) := by
      intro j
      unfold Rmat
      by_cases h1 : (i : Nat) < j
      · rw [if_pos h1, if_pos h1, if_neg (by omega), add_zero]
      · rw [if_neg h1, if_neg h1, zero_add]
        by_cases h2 : (i : Nat) = j
        · rw [if_pos h2, if_pos h2, h2]
        · rw [if_neg h2, if_neg h2, zero_mul]
    rw [Finset.sum_congr rfl (fun j _ => split j), Finset.sum_add_distrib,
      ← sum_above_eq_fin hi (fun j => LA.get st.a n i j * LA.get p.2 o j kk)]
    have single : ∑ j : Fin n, (if (i : Nat) = (j : Nat) then st.dv[(i : Nat)]! * LA.get p.2 o i kk else 0) = st.dv[(i : Nat)]! * LA.get p.2 o i kk := by
      rw [Finset.sum_eq_single (⟨i, hi⟩ : Fin n)]
      · simp
      · intro j _ hj; rw [if_neg (fun e => hj (Fin.ext e.symm))]
      · intro h; exact absurd (Finset.mem_univ _) h
    rw [single, hrec']
    field_simp
    ring

end Libvna.QRLoop


namespace Libvna.QRLoop
open Libvna.LULoop Finset Matrix

/-- the operations of the C over the complex numbers, in exact arithmetic -/
noncomputable def complexOps : LA.QROps ℂ where
  conj := star
  abs2 := fun z => star z * z
  alpha := fun a s => -Complex.exp (Complex.I * a.arg) * (Real.sqrt s.re : ℝ)
  rsqrt := fun s => (Real.sqrt s.re : ℝ)

/-- scalars that are non-negative reals -/
def NonnegReal (s : ℂ) : Prop := ∃ r : ℝ, 0 ≤ r ∧ s = (r : ℂ)

/-- the hypotheses on the operations are what `conj`, `_vnacommon_cabs2`, `-cexp(I carg a) sqrt s` and `sqrt` satisfy over ℂ -/
theorem complexOps_spec : OpsSpec complexOps NonnegReal where
  conj_eq := fun _ => rfl
  abs2_eq := fun _ => rfl
  P_zero := ⟨0, le_refl _, by simp⟩
  P_add := by
    rintro s t ⟨r1, h1, rfl⟩ ⟨r2, h2, rfl⟩
    exact ⟨r1 + r2, add_nonneg h1 h2, by simp⟩
  P_abs2 := fun z => ⟨Complex.normSq z, Complex.normSq_nonneg z, by
    rw [Complex.normSq_eq_conj_mul_self]; rfl⟩
  alpha_norm := by
    rintro a s ⟨r, hr, rfl⟩
    have := (QR.alpha_choice a r hr).1
    simpa [complexOps] using this
  alpha_real := by
    rintro a s ⟨r, hr, rfl⟩
    have := (QR.alpha_choice a r hr).2
    simpa [complexOps] using this
  rsqrt_sq := by
    rintro s ⟨r, hr, rfl⟩
    simp only [complexOps, Complex.ofReal_re]
    rw [← Complex.ofReal_mul, Real.mul_self_sqrt hr]
  rsqrt_real := by
    rintro s ⟨r, hr, rfl⟩
    simp [complexOps]

/-- **least squares**: over ℂ, with the operations the C uses, every column `x` of what `_vnacommon_qrsolve` returns minimises
`‖A x - b‖²` over all vectors (m ≥ n; no zero norm divided by, no zero on the diagonal of R) -/
theorem qrsolve_least_squares (a0 b0 : Array ℂ) (m n o : Nat) (hs : a0.size = m * n) (hb : b0.size = m * o) (hmn : n ≤ m)
    (hnz : ∀ d, d < min m n → stepNrm complexOps m n (LA.qrdLoop complexOps m n d (st0 a0 m n)) d ≠ 0)
    (hd : ∀ i, i < n → (LA.qrd complexOps a0 m n).dv[i]! ≠ 0) (kk : Nat) (hkk : kk < o) (y : Fin n → ℂ) :
    QR.nrm2 (A0mat a0 m n *ᵥ (fun j : Fin n => LA.get (LA.qrsolve complexOps a0 b0 m n o).1 o j kk) - bcol b0 m o kk) ≤
      QR.nrm2 (A0mat a0 m n *ᵥ y - bcol b0 m o kk) :=
  QR.normal_eq_minimises _ _ _ (qrsolve_normal complexOps complexOps_spec two_ne_zero a0 b0 m n o hs hb hmn hnz hd kk hkk) y

end Libvna.QRLoop


namespace Libvna.QRLoop
open Libvna.LULoop Finset Matrix

/-- the hypotheses of `qrsolve_least_squares` are satisfiable: the 1×1 system `1 · x = b` (alpha = -1, the norm divided by is 2) -/
example : (∀ d, d < min 1 1 → stepNrm complexOps 1 1 (LA.qrdLoop complexOps 1 1 d (st0 #[(1 : ℂ)] 1 1)) d ≠ 0) ∧
    (∀ i, i < 1 → (LA.qrd complexOps #[(1 : ℂ)] 1 1).dv[i]! ≠ 0) := by
  have hα : complexOps.alpha 1 (complexOps.abs2 1) = -1 := by
    simp [complexOps]
  have h4 : complexOps.rsqrt (complexOps.abs2 (1 - -1)) = 2 := by
    simp only [complexOps]
    norm_num
    rw [show (4 : ℝ) = 2 * 2 by norm_num, Real.sqrt_mul_self (by norm_num)]
    norm_num
  constructor
  · intro d hd
    have : d = 0 := by omega
    subst this
    simp only [stepNrm, LA.qrdLoop, st0, LA.get]
    norm_num
    rw [hα, h4]
    norm_num
  · intro i hi
    have : i = 0 := by omega
    subst this
    have e : LA.qrd complexOps #[(1 : ℂ)] 1 1 = LA.qrdStep complexOps 1 1 (st0 #[1] 1 1) 0 := rfl
    rw [e]
    simp only [LA.qrdStep, st0, LA.get]
    norm_num
    have z : LA.sumAbs2 complexOps #[(1 : ℂ)] 1 0 0 = 0 := rfl
    rw [z, add_zero, hα]
    norm_num

end Libvna.QRLoop

/-! ## `_vnacommon_qr` (explicit Q, R) and `_vnacommon_qrsolve2` -/

open Libvna Finset
namespace Libvna.QRLoop
open Libvna.LULoop Matrix
variable {K : Type} [Field K] [StarRing K] [Inhabited K]

theorem size_mkR (m n : Nat) (f : Nat → Nat → K) : (LA.mkR m n f).size = m * n := by simp [LA.mkR]

theorem get_mkR (m n : Nat) (f : Nat → Nat → K) {i j : Nat} (hi : i < m) (hj : j < n) :
    LA.get (LA.mkR m n f) n i j = f i j := by
  unfold LA.get LA.mkR
  have hlt : i * n + j < m * n := by
    calc i * n + j < i * n + n := by omega
      _ = (i + 1) * n := by ring
      _ ≤ m * n := Nat.mul_le_mul_right n hi
  have hn : 0 < n := by omega
  have h1 : (i * n + j) / n = i := by
    rw [Nat.add_comm, Nat.add_mul_div_right _ _ hn, Nat.div_eq_of_lt hj]; simp
  have h2 : (i * n + j) % n = j := by
    rw [Nat.add_comm, Nat.add_mul_mod_self_right, Nat.mod_eq_of_lt hj]
  simp [hlt, h1, h2]

/-- a loop that writes row `i`, columns `c0 .. c0+cnt-1`, ascending, each value computed from the array so far -/
def rowLoop (n i c0 : Nat) (f : Array K → Nat → K) : Nat → Array K → Array K
  | 0, a => a
  | t + 1, a => LA.set (rowLoop n i c0 f t a) n i (c0 + t) (f (rowLoop n i c0 f t a) (c0 + t))

theorem rowLoop_spec (a : Array K) {m n i c0 : Nat} (f : Array K → Nat → K) (hs : a.size = m * n) (hi : i < m)
    (cnt : Nat) (hc : c0 + cnt ≤ n) :
    (rowLoop n i c0 f cnt a).size = m * n ∧
    (∀ i' j, i' < m → j < n → ¬ (i' = i ∧ c0 ≤ j ∧ j < c0 + cnt) → LA.get (rowLoop n i c0 f cnt a) n i' j = LA.get a n i' j) ∧
    (∀ t, t < cnt → LA.get (rowLoop n i c0 f cnt a) n i (c0 + t) = f (rowLoop n i c0 f t a) (c0 + t)) := by
  induction cnt with
  | zero => exact ⟨hs, fun _ _ _ _ _ => rfl, fun t ht => absurd ht (Nat.not_lt_zero t)⟩
  | succ k ih =>
    obtain ⟨hs', hun, hup⟩ := ih (by omega)
    have hcn : c0 + k < n := by omega
    simp only [rowLoop]
    refine ⟨by rw [sizeR_set]; exact hs', ?_, ?_⟩
    · intro i' j hi' hj hne
      rw [getR_set _ _ hs' hi hcn hj]
      have : ¬ (i = i' ∧ c0 + k = j) := by rintro ⟨rfl, rfl⟩; exact hne ⟨rfl, by omega, by omega⟩
      rw [if_neg this]
      exact hun i' j hi' hj (fun h => hne ⟨h.1, h.2.1, by omega⟩)
    · intro t ht
      rw [getR_set _ _ hs' hi hcn (by omega)]
      by_cases htk : t = k
      · subst htk; rw [if_pos ⟨rfl, rfl⟩]
      · have : ¬ (i = i ∧ c0 + k = c0 + t) := by rintro ⟨_, h⟩; omega
        rw [if_neg this]
        exact hup t (by omega)

theorem qUpd_eq (ops : LA.QROps K) (a : Array K) (m n d i : Nat) (s : K) (cnt : Nat) (q : Array K) :
    LA.qUpd ops a m n d i s cnt q =
      rowLoop m i d (fun q' c => LA.get q' m i c - (1 + 1) * s * ops.conj (LA.get a n c d)) cnt q := by
  induction cnt with
  | zero => rfl
  | succ t ih => simp only [LA.qUpd, rowLoop, ih]

theorem qDot_eq (a q : Array K) (m n d i cnt : Nat) :
    LA.qDot a q m n d i cnt = ∑ t ∈ range cnt, LA.get q m i (d + t) * LA.get a n (d + t) d := by
  induction cnt with
  | zero => simp [LA.qDot]
  | succ t ih => rw [LA.qDot, ih, sum_range_succ]

theorem qtbDot_eq (ops : LA.QROps K) (q b : Array K) (m o i j cnt : Nat) :
    LA.qtbDot ops q b m o i j cnt = ∑ k ∈ range cnt, ops.conj (LA.get q m k i) * LA.get b o k j := by
  induction cnt with
  | zero => simp [LA.qtbDot]
  | succ t ih => rw [LA.qtbDot, ih, sum_range_succ]

/-- row i, columns d .. d+cnt-1: `Q(i,c) -= 2 s conj A(c,d)`, nothing else touched -/
theorem qUpd_spec (ops : LA.QROps K) (a q : Array K) {m n d i : Nat} (s : K) (hs : q.size = m * m) (hi : i < m)
    (cnt : Nat) (hc : d + cnt ≤ m) :
    (LA.qUpd ops a m n d i s cnt q).size = m * m ∧
    (∀ i' j, i' < m → j < m → LA.get (LA.qUpd ops a m n d i s cnt q) m i' j =
      if i' = i ∧ d ≤ j ∧ j < d + cnt then LA.get q m i j - (1 + 1) * s * ops.conj (LA.get a n j d) else LA.get q m i' j) := by
  rw [qUpd_eq]
  obtain ⟨h1, h2, h3⟩ := rowLoop_spec (m := m) (c0 := d) q (fun q' c => LA.get q' m i c - (1 + 1) * s * ops.conj (LA.get a n c d)) hs hi cnt hc
  refine ⟨h1, ?_⟩
  intro i' j hi' hj
  split
  · next h =>
    obtain ⟨rfl, h1', h2'⟩ := h
    obtain ⟨t, rfl⟩ : ∃ t, j = d + t := ⟨j - d, by omega⟩
    rw [h3 t (by omega)]
    obtain ⟨_, g2, _⟩ := rowLoop_spec (m := m) (c0 := d) q (fun q' c => LA.get q' m i' c - (1 + 1) * s * ops.conj (LA.get a n c d)) hs hi t (by omega)
    show LA.get _ m i' (d + t) - _ = _
    rw [g2 i' (d + t) hi hj (by rintro ⟨_, _, h⟩; omega)]
  · next h => exact h2 i' j hi' hj h

/-- rows 0 .. cnt-1 multiplied from the right by reflector d -/
theorem qRows_spec (ops : LA.QROps K) (a q : Array K) {m n d : Nat} (hs : q.size = m * m) (hd : d ≤ m) (cnt : Nat) (hc : cnt ≤ m) :
    (LA.qRows ops a m n d cnt q).size = m * m ∧
    (∀ i j, i < m → j < m → LA.get (LA.qRows ops a m n d cnt q) m i j =
      if i < cnt ∧ d ≤ j then
        LA.get q m i j - (1 + 1) * (∑ t ∈ range (m - d), LA.get q m i (d + t) * LA.get a n (d + t) d) * ops.conj (LA.get a n j d)
      else LA.get q m i j) := by
  induction cnt with
  | zero =>
    refine ⟨hs, ?_⟩
    intro i j _ _; rw [if_neg (by omega)]; rfl
  | succ c ih =>
    obtain ⟨hs', hg⟩ := ih (by omega)
    simp only [LA.qRows]
    have hcm : c < m := by omega
    obtain ⟨u1, u2⟩ := qUpd_spec (m := m) (n := n) (d := d) (i := c) ops a (LA.qRows ops a m n d c q) (LA.qDot a (LA.qRows ops a m n d c q) m n d c (m - d)) hs' hcm (m - d) (by omega)
    refine ⟨u1, ?_⟩
    intro i j hi hj
    rw [u2 i j hi hj]
    by_cases hic : i = c
    · subst hic
      by_cases hdj : d ≤ j
      · rw [if_pos ⟨rfl, hdj, by omega⟩, if_pos ⟨by omega, hdj⟩, qDot_eq, hg i j hi hj, if_neg (by omega)]
        congr 2
        congr 1
        apply sum_congr rfl
        intro t ht
        have ht' := mem_range.mp ht
        rw [hg i (d + t) hi (by omega), if_neg (by omega)]
      · rw [if_neg (by omega), if_neg (by omega), hg i j hi hj, if_neg (by omega)]
    · rw [if_neg (by omega), hg i j hi hj]
      by_cases h : i < c ∧ d ≤ j
      · rw [if_pos h, if_pos ⟨by omega, h.2⟩]
      · rw [if_neg h, if_neg (by omega)]

end Libvna.QRLoop

namespace Libvna.QRLoop
open Libvna.LULoop Matrix Finset
variable {K : Type} [Field K] [StarRing K] [Inhabited K]

def Qmat (q : Array K) (m : Nat) : Matrix (Fin m) (Fin m) K := fun i j => LA.get q m i j

theorem mul_reflector_apply {m : Nat} (Q : Matrix (Fin m) (Fin m) K) (v : Fin m → K) (i j : Fin m) :
    (Q * QR.reflector v) i j = Q i j - (1 + 1) * (∑ l, Q i l * v l) * star (v j) := by
  unfold QR.reflector
  rw [Matrix.mul_sub, Matrix.mul_one, Matrix.mul_smul, Matrix.sub_apply, Matrix.smul_apply, Matrix.mul_apply]
  simp only [vecMulVec_apply, Pi.star_apply, smul_eq_mul]
  congr 1
  rw [Finset.mul_sum, Finset.mul_sum, Finset.sum_mul]
  apply sum_congr rfl; intro l _; ring

/-- one pass of the `diagonal` loop of `_vnacommon_qr`: `Q ← Q H_d` -/
theorem qRows_matrix (ops : LA.QROps K) {P : K → Prop} (hops : OpsSpec ops P) (a q : Array K) {m n d : Nat}
    (hs : q.size = m * m) (hd : d ≤ m) :
    (LA.qRows ops a m n d m q).size = m * m ∧
    Qmat (LA.qRows ops a m n d m q) m = Qmat q m * QR.reflector (vvec a m n d) := by
  obtain ⟨s1, g1⟩ := qRows_spec ops a q (n := n) hs hd m (le_refl _)
  refine ⟨s1, ?_⟩
  ext i j
  rw [mul_reflector_apply]
  unfold Qmat
  rw [g1 i j i.2 j.2]
  have hsum : ∑ l : Fin m, LA.get q m i l * vvec a m n d l = ∑ t ∈ range (m - d), LA.get q m i (d + t) * LA.get a n (d + t) d := by
    have : ∀ l : Fin m, LA.get q m i l * vvec a m n d l = if (l : Nat) < d then 0 else LA.get q m i l * LA.get a n l d := by
      intro l; unfold vvec; split <;> simp
    rw [Finset.sum_congr rfl (fun l _ => this l), sum_fin_shift hd (fun l => LA.get q m i l * LA.get a n l d)]
  rw [hsum]
  by_cases hdj : d ≤ (j : Nat)
  · rw [if_pos ⟨i.2, hdj⟩, hops.conj_eq]
    unfold vvec; rw [if_neg (by omega)]
  · rw [if_neg (by omega)]
    unfold vvec; rw [if_pos (by omega)]; simp

/-- the accumulated matrix: `Q₀ H_0 H_1 ⋯ H_{k-1} = Q₀ (H_{k-1} ⋯ H_0)ᴴ` -/
theorem qAccum_matrix (ops : LA.QROps K) {P : K → Prop} (hops : OpsSpec ops P) (a q0 : Array K) {m n : Nat}
    (hs : q0.size = m * m) (k : Nat) (hk : k ≤ m) :
    (LA.qAccum ops a m n k q0).size = m * m ∧
    Qmat (LA.qAccum ops a m n k q0) m = Qmat q0 m * (Uprod a m n k)ᴴ := by
  induction k with
  | zero => exact ⟨hs, by simp [LA.qAccum, Uprod]⟩
  | succ d ih =>
    obtain ⟨s1, e1⟩ := ih (by omega)
    obtain ⟨s2, e2⟩ := qRows_matrix ops hops a (LA.qAccum ops a m n d q0) (n := n) (d := d) s1 (by omega)
    refine ⟨s2, ?_⟩
    show Qmat (LA.qRows ops a m n d m (LA.qAccum ops a m n d q0)) m = _
    rw [e2, e1]
    simp only [Uprod]
    rw [conjTranspose_mul, QR.reflector_hermitian, Matrix.mul_assoc]

/-- **`_vnacommon_qr` factors**: the returned Q is unitary and `Q R = A` (every m, n; no step divides by a zero norm) -/
theorem qr_factors (ops : LA.QROps K) {P : K → Prop} (hops : OpsSpec ops P) (h2 : (2 : K) ≠ 0)
    (a0 : Array K) (m n : Nat) (hs : a0.size = m * n)
    (hnz : ∀ d, d < min m n → stepNrm ops m n (LA.qrdLoop ops m n d (st0 a0 m n)) d ≠ 0) :
    let res := LA.qr ops a0 m n
    res.1.size = m * m ∧ res.2.1.size = m * n ∧
    (Qmat res.1 m)ᴴ * Qmat res.1 m = 1 ∧
    Qmat res.1 m * (Matrix.of fun (i : Fin m) (j : Fin n) => LA.get res.2.1 n i j) = A0mat a0 m n ∧
    (∀ (i : Fin m) (j : Fin n), LA.get res.2.1 n i j = Rmat (LA.qrd ops a0 m n).a (LA.qrd ops a0 m n).dv m n i j) := by
  intro res
  obtain ⟨sa, sd, hU, hUA⟩ := qrd_factors ops hops h2 a0 m n hs hnz
  set st := LA.qrd ops a0 m n with hst
  have hq : res.1 = LA.qAccum ops st.a m n (min m n) (LA.mkR m m fun i j => if i = j then 1 else 0) := rfl
  have hr : res.2.1 = LA.mkR m n (fun i j => if i < j then LA.get st.a n i j else if i = j then st.dv[j]! else 0) := rfl
  obtain ⟨sq, eq⟩ := qAccum_matrix ops hops st.a (LA.mkR m m fun i j => if i = j then (1 : K) else 0) (n := n) (size_mkR m m _) (min m n) (Nat.min_le_left m n)
  have hid : Qmat (LA.mkR m m fun i j => if i = j then (1 : K) else 0) m = 1 := by
    ext i j
    unfold Qmat
    rw [get_mkR m m _ i.2 j.2, Matrix.one_apply]
    by_cases h : i = j
    · subst h; simp
    · have : ¬ ((i : Nat) = (j : Nat)) := fun e => h (Fin.ext e)
      simp [h, this]
  rw [hid, Matrix.one_mul] at eq
  have hU' : Uprod st.a m n (min m n) * (Uprod st.a m n (min m n))ᴴ = 1 := mul_eq_one_comm.mp hU
  have hRm : (Matrix.of fun (i : Fin m) (j : Fin n) => LA.get res.2.1 n i j) = Rmat st.a st.dv m n := by
    ext i j
    rw [Matrix.of_apply, hr, get_mkR m n _ i.2 j.2]; rfl
  refine ⟨by rw [hq]; exact sq, by rw [hr]; exact size_mkR m n _, ?_, ?_, ?_⟩
  · rw [hq, eq, conjTranspose_conjTranspose]; exact hU'
  · rw [hRm, hq, eq, ← hUA, ← Matrix.mul_assoc, hU, Matrix.one_mul]
  · intro i j; have := congrFun (congrFun hRm i) j; rwa [Matrix.of_apply] at this

end Libvna.QRLoop

namespace Libvna.QRLoop
open Libvna.LULoop Matrix Finset
variable {K : Type} [Field K] [StarRing K] [Inhabited K]

/-- back substitution of `_vnacommon_qrsolve2`: rows diag-cnt .. diag-1 of column j of X, nothing else touched -/
theorem qs2Back_spec (ops : LA.QROps K) (q r b x : Array K) {m n o j diag : Nat} (hx : x.size = n * o) (hj : j < o) (hdn : diag ≤ n)
    (cnt : Nat) (hc : cnt ≤ diag) :
    (LA.qs2Back ops q r b m n o j diag cnt x).size = n * o ∧
    (∀ i c, i < n → c < o → ¬ (c = j ∧ diag - cnt ≤ i ∧ i < diag) → LA.get (LA.qs2Back ops q r b m n o j diag cnt x) o i c = LA.get x o i c) ∧
    (∀ i, diag - cnt ≤ i → i < diag → LA.get (LA.qs2Back ops q r b m n o j diag cnt x) o i j =
      (LA.qtbDot ops q b m o i j m - ∑ t ∈ range (diag - (i + 1)), LA.get r n i (i + 1 + t) * LA.get (LA.qs2Back ops q r b m n o j diag cnt x) o (i + 1 + t) j)
        / LA.get r n i i) := by
  induction cnt with
  | zero => exact ⟨hx, fun _ _ _ _ _ => rfl, fun i h1 h2 => by omega⟩
  | succ c ih =>
    obtain ⟨s1, u1, r1⟩ := ih (by omega)
    simp only [LA.qs2Back]
    set x' := LA.qs2Back ops q r b m n o j diag c x with hx'
    have hi0 : diag - 1 - c < n := by omega
    refine ⟨by rw [sizeR_set]; exact s1, ?_, ?_⟩
    · intro i cc hi hcc hne
      rw [getR_set _ _ s1 hi0 hj hcc, if_neg (by rintro ⟨rfl, rfl⟩; exact hne ⟨rfl, by omega, by omega⟩)]
      exact u1 i cc hi hcc (by rintro ⟨h1, h2, h3⟩; exact hne ⟨h1, by omega, h3⟩)
    · intro i h1 h2
      have hsum : ∀ i', diag - 1 - c ≤ i' → ∀ v,
          ∑ t ∈ range (diag - (i' + 1)), LA.get r n i' (i' + 1 + t) * LA.get (LA.set x' o (diag - 1 - c) j v) o (i' + 1 + t) j =
          ∑ t ∈ range (diag - (i' + 1)), LA.get r n i' (i' + 1 + t) * LA.get x' o (i' + 1 + t) j := by
        intro i' hi' v
        apply sum_congr rfl; intro t ht
        have ht' := mem_range.mp ht
        rw [getR_set _ _ s1 hi0 hj hj, if_neg (by rintro ⟨h, _⟩; omega)]
      rw [getR_set _ _ s1 hi0 hj hj]
      by_cases hic : i = diag - 1 - c
      · subst hic
        rw [if_pos ⟨rfl, rfl⟩, hsum _ (le_refl _), accSub_eq]
      · rw [if_neg (by rintro ⟨h, _⟩; exact hic h.symm), hsum i (by omega)]
        exact r1 i (by omega) h2

theorem qs2Cols_spec (ops : LA.QROps K) (q r b x0 : Array K) {m n o : Nat} (hx : x0.size = n * o) (cnt : Nat) (hc : cnt ≤ o) :
    (LA.qs2Cols ops q r b m n o cnt x0).size = n * o ∧
    (∀ j, j < cnt → ∀ i, i < min m n → LA.get (LA.qs2Cols ops q r b m n o cnt x0) o i j =
      (LA.qtbDot ops q b m o i j m - ∑ t ∈ range (min m n - (i + 1)), LA.get r n i (i + 1 + t) * LA.get (LA.qs2Cols ops q r b m n o cnt x0) o (i + 1 + t) j)
        / LA.get r n i i) := by
  induction cnt with
  | zero => exact ⟨hx, fun j h => absurd h (Nat.not_lt_zero j)⟩
  | succ c ih =>
    obtain ⟨s1, hrec⟩ := ih (by omega)
    have hco : c < o := by omega
    simp only [LA.qs2Cols]
    obtain ⟨r1, r2, r3⟩ := qs2Back_spec ops q r b (LA.qs2Cols ops q r b m n o c x0) (m := m) s1 hco (Nat.min_le_right m n) (min m n) (le_refl _)
    refine ⟨r1, ?_⟩
    intro j hj i hi
    by_cases h : j = c
    · subst h; rw [r3 i (by omega) hi]
    · have hn : i < n := lt_of_lt_of_le hi (Nat.min_le_right m n)
      rw [r2 i j hn (by omega) (by rintro ⟨h', _⟩; exact h h'), hrec j (by omega) i hi]
      congr 2
      apply sum_congr rfl; intro t ht
      have ht' := mem_range.mp ht
      rw [r2 (i + 1 + t) j (by omega) (by omega) (by rintro ⟨h', _⟩; exact h h')]

/-- **`_vnacommon_qrsolve2` solves the normal equations** of any `A = Q R` with Q unitary, R upper triangular with a non-zero
diagonal, m ≥ n: for every column, `Aᴴ (A x - b) = 0` -/
theorem qrsolve2_normal (ops : LA.QROps K) {P : K → Prop} (hops : OpsSpec ops P) (q r b : Array K) (m n o : Nat) (hmn : n ≤ m)
    (A : Matrix (Fin m) (Fin n) K)
    (hQ : (Qmat q m)ᴴ * Qmat q m = 1) (hQR : Qmat q m * (Matrix.of fun (i : Fin m) (j : Fin n) => LA.get r n i j) = A)
    (hR : ∀ (i : Fin m) (j : Fin n), (j : Nat) < i → LA.get r n i j = 0) (hd : ∀ i, i < n → LA.get r n i i ≠ 0)
    (kk : Nat) (hkk : kk < o) :
    Aᴴ *ᵥ (A *ᵥ (fun j : Fin n => LA.get (LA.qrsolve2 ops q r b m n o) o j kk) - bcol b m o kk) = 0 := by
  have hr : min m n = n := Nat.min_eq_right hmn
  obtain ⟨_, hrec⟩ := qs2Cols_spec ops q r b (Array.replicate (n * o) (0 : K)) (m := m) (n := n) (by simp) o (le_refl _)
  have hX : LA.qrsolve2 ops q r b m n o = LA.qs2Cols ops q r b m n o o (Array.replicate (n * o) 0) := rfl
  rw [hX]
  set X := LA.qs2Cols ops q r b m n o o (Array.replicate (n * o) 0) with hXdef
  set R : Matrix (Fin m) (Fin n) K := Matrix.of fun (i : Fin m) (j : Fin n) => LA.get r n i j with hRdef
  have hQ' : Qmat q m * (Qmat q m)ᴴ = 1 := mul_eq_one_comm.mp hQ
  apply normal_of_qr A R (Qmat q m)ᴴ _ _ (by rw [conjTranspose_conjTranspose]; exact hQ') (by rw [← hQR, ← Matrix.mul_assoc, hQ, Matrix.one_mul])
  · intro i j hi
    rw [hRdef, Matrix.of_apply]
    exact hR i j (by have := j.2; omega)
  · intro i hi
    have hrec' := hrec kk hkk i (by omega)
    rw [hr, qtbDot_eq] at hrec'
    have hdi := hd i hi
    -- the right-hand side: (Qᴴ b)_i
    have hrhs : ((Qmat q m)ᴴ *ᵥ bcol b m o kk) i = ∑ k ∈ range m, ops.conj (LA.get q m k i) * LA.get b o k kk := by
      simp only [mulVec, dotProduct, conjTranspose_apply, Qmat, bcol]
      rw [← Fin.sum_univ_eq_sum_range (fun k => ops.conj (LA.get q m k i) * LA.get b o k kk) m]
      apply Finset.sum_congr rfl; intro k _; rw [hops.conj_eq]
    rw [hrhs]
    simp only [mulVec, dotProduct]
    have split : ∀ j : Fin n, R i j * LA.get X o j kk =
        (if (i : Nat) < (j : Nat) then LA.get r n i j * LA.get X o j kk else 0) +
        (if (i : Nat) = (j : Nat) then LA.get r n i i * LA.get X o i kk else 0) := by
      intro j
      rw [hRdef, Matrix.of_apply]
      by_cases h1 : (i : Nat) < j
      · rw [if_pos h1, if_neg (by omega), add_zero]
      · rw [if_neg h1, zero_add]
        by_cases h2 : (i : Nat) = j
        · rw [if_pos h2, h2]
        · rw [if_neg h2, hR i j (by omega), zero_mul]
    rw [Finset.sum_congr rfl (fun j _ => split j), Finset.sum_add_distrib,
      ← sum_above_eq_fin hi (fun j => LA.get r n i j * LA.get X o j kk)]
    have single : ∑ j : Fin n, (if (i : Nat) = (j : Nat) then LA.get r n i i * LA.get X o i kk else 0) = LA.get r n i i * LA.get X o i kk := by
      rw [Finset.sum_eq_single (⟨i, hi⟩ : Fin n)]
      · simp
      · intro j _ hj; rw [if_neg (fun e => hj (Fin.ext e.symm))]
      · intro h; exact absurd (Finset.mem_univ _) h
    rw [single, hrec']
    field_simp
    ring

/-- `_vnacommon_qr` followed by `_vnacommon_qrsolve2` (the Gauss–Newton step of the iterative solver): the normal equations -/
theorem qr_qrsolve2_normal (ops : LA.QROps K) {P : K → Prop} (hops : OpsSpec ops P) (h2 : (2 : K) ≠ 0)
    (a0 b : Array K) (m n o : Nat) (hs : a0.size = m * n) (hmn : n ≤ m)
    (hnz : ∀ d, d < min m n → stepNrm ops m n (LA.qrdLoop ops m n d (st0 a0 m n)) d ≠ 0)
    (hd : ∀ i, i < n → (LA.qrd ops a0 m n).dv[i]! ≠ 0) (kk : Nat) (hkk : kk < o) :
    let res := LA.qr ops a0 m n
    (A0mat a0 m n)ᴴ *ᵥ (A0mat a0 m n *ᵥ (fun j : Fin n => LA.get (LA.qrsolve2 ops res.1 res.2.1 b m n o) o j kk) - bcol b m o kk) = 0 := by
  intro res
  obtain ⟨_, _, hQ, hQR, hRm⟩ := qr_factors ops hops h2 a0 m n hs hnz
  apply qrsolve2_normal ops hops res.1 res.2.1 b m n o hmn (A0mat a0 m n) hQ hQR
  · intro i j hji
    rw [hRm i j]; unfold Rmat
    rw [if_neg (by omega), if_neg (by omega)]
  · intro i hi
    have := hRm ⟨i, by omega⟩ ⟨i, hi⟩
    simp only [] at this
    rw [this]; unfold Rmat
    simp only [lt_irrefl, if_false, if_true]
    exact hd i hi
  · exact hkk

end Libvna.QRLoop
