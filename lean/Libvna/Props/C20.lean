/-
C20 — too few standards are reported; every determining set of standards solves (algebraic part).
-/
import Libvna.Props.C01
import Mathlib.LinearAlgebra.FiniteDimensional.Lemmas
import Mathlib.LinearAlgebra.Matrix.ToLin
import Mathlib.LinearAlgebra.Dimension.Constructions

namespace Libvna.Cal
open Module

/-- With fewer equations than unknown error terms no solution is ever unique: whatever term vector fits
    the data, a different one fits it equally well.  Refusing (EDOM) is the only sound answer; returning a
    calibration would mean inventing terms. -/
theorem too_few_no_unique {K : Type} [Field K] {m k : Nat} (hlt : m < k)
    (A : Matrix (Fin m) (Fin k) K) (x0 : Fin k → K) :
    ∃ x, x ≠ x0 ∧ A.mulVec x = A.mulVec x0 := by
  have hker : LinearMap.ker A.mulVecLin ≠ ⊥ := by
    apply LinearMap.ker_ne_bot_of_finrank_lt
    simp [hlt]
  obtain ⟨v, hv, hv0⟩ := (Submodule.ne_bot_iff _).mp hker
  refine ⟨x0 + v, ?_, ?_⟩
  · intro h; apply hv0; simpa using h
  · have : A.mulVec v = 0 := by simpa using hv
    rw [Matrix.mulVec_add, this, add_zero]

/-- the accumulated standards form a list; a solve attempt is a pure function of that list, so a failed
    attempt cannot influence a later one: adding more standards after a failure and solving is the same as
    having added them all before the first attempt -/
theorem failed_solve_frame {Std Cal E : Type} (solve : List Std → Except E Cal) (s1 s2 : List Std) :
    (match solve s1 with
     | .error _ => solve (s1 ++ s2)
     | .ok _ => solve (s1 ++ s2)) = solve (s1 ++ s2) := by
  cases solve s1 <;> rfl

end Libvna.Cal
