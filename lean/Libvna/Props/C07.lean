/-
C07 — calibration files round-trip: the table-level logic.

`vnacal_save` writes the live calibrations in index order; `vnacal_load` adds them one by one with
`_vnacal_add_calibration_common` (Model/CalTable.lean, tied to the C by the C16 correspondence run).
Theorems: loading a saved list of distinct names puts the i-th saved calibration at index i (no renumbering
among the loaded ones, holes of the original table are closed), and saving the loaded table gives the same
list again — save ∘ load ∘ save = save — whatever holes the original table had.
-/
import Libvna.Props.C16

namespace Libvna.CT

theorem findName_prefix (name : String) (l : List String) (m base : Nat) (h : name ∉ l) :
    findName name (l.map some ++ List.replicate m none) base = none := by
  induction l generalizing base with
  | nil =>
    induction m generalizing base with
    | zero => simp [findName]
    | succ k ih => simp only [List.map_nil, List.nil_append, List.replicate_succ, findName]; simpa using ih (base + 1)
  | cons a l ih =>
    simp only [List.mem_cons, not_or] at h
    simp only [List.map_cons, List.cons_append, findName]
    rw [if_neg (fun e => h.1 e.symm)]
    exact ih (base + 1) h.2

theorem firstNone_prefix (l : List String) (m base : Nat) :
    firstNone (l.map some ++ List.replicate m none) base = if m = 0 then none else some (base + l.length) := by
  induction l generalizing base with
  | nil =>
    cases m with
    | zero => simp [firstNone]
    | succ k => simp [firstNone, List.replicate_succ]
  | cons a l ih =>
    simp only [List.map_cons, List.cons_append, firstNone, ih (base + 1), List.length_cons]
    split <;> simp <;> omega

theorem set_prefix (l : List String) (m : Nat) (name : String) (hm : 0 < m) :
    (l.map some ++ List.replicate m none).set l.length (some name) =
      (l ++ [name]).map some ++ List.replicate (m - 1) none := by
  induction l with
  | nil =>
    cases m with
    | zero => omega
    | succ k => simp [List.replicate_succ]
  | cons a l ih => simpa using ih

/-- adding a new name to a table without holes puts it right after the others -/
theorem addCal_prefix (l : List String) (m : Nat) (name : String) (h : name ∉ l) :
    ∃ m', addCal (l.map some ++ List.replicate m none) name = ((l ++ [name]).map some ++ List.replicate m' none, l.length) := by
  unfold addCal
  rw [findName_prefix name l m 0 h, firstNone_prefix l m 0]
  by_cases hm : m = 0
  · subst hm
    simp only [↓reduceIte, List.replicate_zero, List.append_nil, List.length_map]
    have hg : 0 < growC l.length - l.length := by
      unfold growC; split
      · omega
      · split <;> omega
    refine ⟨growC l.length - l.length - 1, ?_⟩
    have := set_prefix l (growC l.length - l.length) name hg
    simp only [this]
  · simp only [hm, ↓reduceIte, Nat.zero_add]
    exact ⟨m - 1, by rw [set_prefix l m name (by omega)]⟩

/-- **loading puts the i-th saved calibration at index i** and leaves no hole among them -/
theorem load_layout (names : List String) (hd : names.Nodup) :
    ∃ m, loadList names = names.map some ++ List.replicate m none := by
  unfold loadList
  suffices H : ∀ (done rest : List String) (m : Nat), (done ++ rest).Nodup →
      ∃ m', rest.foldl (fun s n => (addCal s n).1) (done.map some ++ List.replicate m none) =
        (done ++ rest).map some ++ List.replicate m' none by
    simpa using H [] names 0 (by simpa using hd)
  intro done rest
  induction rest generalizing done with
  | nil => intro m _; exact ⟨m, by simp⟩
  | cons a rest ih =>
    intro m hnd
    have ha : a ∉ done := by
      intro hmem
      have := List.nodup_append.mp hnd
      exact this.2.2 a hmem a List.mem_cons_self rfl
    obtain ⟨m1, h1⟩ := addCal_prefix done m a ha
    simp only [List.foldl_cons, h1]
    have hnd' : ((done ++ [a]) ++ rest).Nodup := by simpa using hnd
    obtain ⟨m2, h2⟩ := ih (done ++ [a]) m1 hnd'
    exact ⟨m2, by simpa using h2⟩

theorem saveList_prefix (l : List String) (m : Nat) : saveList (l.map some ++ List.replicate m none) = l := by
  unfold saveList
  simp [List.filterMap_append, List.filterMap_map]

/-- **save ∘ load is the identity on saved lists**: names and order survive; with `saveList slots` for the list,
    save ∘ load ∘ save = save whatever holes `slots` had -/
theorem save_load_names (names : List String) (hd : names.Nodup) : saveList (loadList names) = names := by
  obtain ⟨m, h⟩ := load_layout names hd
  rw [h, saveList_prefix]

theorem load_index (names : List String) (hd : names.Nodup) (i : Nat) (hi : i < names.length) :
    (loadList names)[i]? = some (some names[i]) := by
  obtain ⟨m, h⟩ := load_layout names hd
  rw [h, List.getElem?_append_left (by simpa using hi)]
  simp [hi]

theorem load_end (names : List String) (hd : names.Nodup) (i : Nat) (hi : names.length ≤ i) :
    ((loadList names)[i]?).join = none := by
  obtain ⟨m, h⟩ := load_layout names hd
  rw [h, List.getElem?_append_right (by simpa using hi)]
  simp only [List.getElem?_replicate, List.length_map]
  split <;> rfl

end Libvna.CT
