/- One-step semantics of the vnadata model over an operation alphabet (core-only). -/
import Libvna.Model.VData

namespace Libvna.VD
variable {V F : Type}

inductive Op (V F : Type)
  | resize (t r k n : Int) | init (t r k n : Int) | setType (t : Int)
  | addFrequency (x : F) | setFrequency (i : Int) (x : F) | setFrequencyVector (xs : List F)
  | setCell (f r k : Int) (x : V) | setMatrix (f : Int) (xs : List V) | setFromVector (r k : Int) (xs : List V)
  | setZ0 (p : Int) (z : V) | setAllZ0 (z : V) | setZ0Vector (zs : List V)
  | setFz0 (f p : Int) (z : V) | setFz0Vector (f : Int) (zs : List V)
  | getFrequency (i : Int) | getFmin | getFmax
  | getCell (f r k : Int) | getMatrix (f : Int) | getToVector (r k : Int)
  | getZ0 (p : Int) | getZ0Vector | getFz0 (f p : Int) | getFz0Vector (f : Int)

inductive Payload (V F : Type)
  | unit | val (v : V) | vals (vs : List V) | freq (x : F)

def liftU {V F : Type} (p : VData V F × Res Unit) : VData V F × Res (Payload V F) :=
  (p.1, match p.2 with | .ok _ => .ok .unit | .fail e => .fail e | .ub w => .ub w)

def mapRes {α β : Type} (f : α → β) : Res α → Res β
  | .ok a => .ok (f a) | .fail e => .fail e | .ub w => .ub w

def step (c : Cfg V F) (s : VData V F) : Op V F → VData V F × Res (Payload V F)
  | .resize t r k n => liftU (s.resize c t r k n)
  | .init t r k n => liftU (s.init c t r k n)
  | .setType t => liftU (s.setType t)
  | .addFrequency x => liftU (s.addFrequency c x)
  | .setFrequency i x => liftU (s.setFrequency i x)
  | .setFrequencyVector xs => liftU (s.setFrequencyVector xs)
  | .setCell f r k x => liftU (s.setCell f r k x)
  | .setMatrix f xs => liftU (s.setMatrix f xs)
  | .setFromVector r k xs => liftU (s.setFromVector r k xs)
  | .setZ0 p z => liftU (s.setZ0 c p z)
  | .setAllZ0 z => liftU (s.setAllZ0 c z)
  | .setZ0Vector zs => liftU (s.setZ0Vector c zs)
  | .setFz0 f p z => liftU (s.setFz0 c f p z)
  | .setFz0Vector f zs => liftU (s.setFz0Vector c f zs)
  | .getFrequency i => (s, mapRes .freq (s.getFrequency i))
  | .getFmin => (s, mapRes .freq s.getFmin)
  | .getFmax => (s, mapRes .freq s.getFmax)
  | .getCell f r k => (s, mapRes .val (s.getCell f r k))
  | .getMatrix f => (s, mapRes .vals (s.getMatrix f))
  | .getToVector r k => (s, mapRes .vals (s.getToVector r k))
  | .getZ0 p => (s, mapRes .val (s.getZ0 p))
  | .getZ0Vector => (s, mapRes .vals s.getZ0Vector)
  | .getFz0 f p => (s, mapRes .val (s.getFz0 f p))
  | .getFz0Vector f => (s, mapRes .vals (s.getFz0Vector f))

/-- state after a history of operations -/
def run (c : Cfg V F) (s : VData V F) (ops : List (Op V F)) : VData V F :=
  ops.foldl (fun s op => (step c s op).1) s

def Res.isUb {α : Type} : Res α → Bool
  | .ub _ => true | _ => false

end Libvna.VD
