/-
Model of `vnadata_convert` (src/vnadata_convert.c) on top of the vnadata model — core-only.
The dispatch goes through the tables *extracted from the C source* (Gen/Tables.lean); the numeric
conversion itself is a parameter `conv fn cells z0 n`, instantiated in the driver with the generated
two-port functions and the n-port models, and left abstract in the theorems.
-/
import Libvna.Model.VData
import Libvna.Gen.Tables

namespace Libvna.VD
open Libvna.Gen.Tables
variable {V F : Type}

structure Disp where
  conv : Nat      -- CONV_xtoy / CONV_xtoI / CONV_NONE
  dim : Nat       -- DIM_ANY / DIM_VEC / DIM_2x2 / DIM_NxN
  z0 : Bool
  fn : String     -- "" for the SAME entries
deriving Repr, DecidableEq

def groupFns (group : Nat) : List String :=
  if group = DIM_2x2 ||| Z0_NO ||| CONV_xtoy then group_2x2_no_xtoy
  else if group = DIM_2x2 ||| Z0_YES ||| CONV_xtoy then group_2x2_yes_xtoy
  else if group = DIM_2x2 ||| Z0_YES ||| CONV_xtoI then group_2x2_yes_xtoI
  else if group = DIM_NxN ||| Z0_NO ||| CONV_xtoy then group_NxN_no_xtoy
  else if group = DIM_NxN ||| Z0_YES ||| CONV_xtoy then group_NxN_yes_xtoy
  else if group = DIM_NxN ||| Z0_YES ||| CONV_xtoI then group_NxN_yes_xtoI
  else []

/-- `conversion_table[from][to]` decoded: `none` = INVAL (or indices out of the table) -/
def lookup (src dst : Nat) : Option Disp :=
  match (convTable[src]?).bind (·[dst]?) with
  | none => none
  | some code =>
    if code = 0 then none else
    let group := (code &&& 0xFF00) >>> 8
    let index := code &&& 0xFF
    let cv := group &&& CONV_MASK
    some { conv := cv, dim := group &&& DIM_MASK, z0 := (group &&& Z0_MASK) = Z0_YES,
           fn := if cv = CONV_NONE then "" else ((groupFns group)[index]?).getD "?" }

/-- argument and dimension checks of `vnadata_convert`, in the order of the C text -/
def VData.convertCheck (s : VData V F) (newtype : Int) : Option Disp :=
  if newtype < 0 ∨ newtype ≥ 11 then none else
  match lookup s.type newtype.toNat with
  | none => none
  | some d =>
    if d.dim = DIM_VEC ∧ ¬ (s.rows = 1 ∨ s.cols = 1) then none
    else if d.dim = DIM_2x2 ∧ ¬ (s.rows = 2 ∧ s.cols = 2) then none
    else if d.dim = DIM_NxN ∧ s.rows ≠ s.cols then none
    else some d

/-- the z0 vector handed to the conversion function at frequency f (`get_fz0_vector`) -/
def VData.z0At (s : VData V F) (f : Nat) : List V :=
  (List.range s.ports).map fun p => if s.perF then s.fz0 f p else s.z0 p

def VData.cellsAt (s : VData V F) (f : Nat) : List V := (List.range s.cells).map (s.data f)

abbrev ConvFn (V : Type) := String → List V → List V → Nat → List V

/-- in-place conversion (`vdp_out == vdp_in`) -/
def VData.convertInPlace (c : Cfg V F) (conv : ConvFn V) (s : VData V F) (newtype : Int) : VData V F × Res Unit :=
  match s.convertCheck newtype with
  | none => (s, .fail .EINVAL)
  | some d =>
    if newtype.toNat = s.type then (s, .ok ())
    else if ¬ (s.freqs ≤ s.fAlloc ∧ s.cells ≤ s.mAlloc ∧ s.ports ≤ s.pAlloc) then (s, .ub "convert")
    else
      let out : Nat → List V := fun f => conv d.fn (s.cellsAt f) (s.z0At f) s.rows
      let s1 : VData V F :=
        { s with data := fun f k => if h : f < s.freqs ∧ k < (out f).length ∧ k < s.cells then (out f)[k]'h.2.1 else s.data f k,
                 type := newtype.toNat }
      if d.conv = CONV_xtoI then
        s1.resize c newtype 1 (min s.rows s.cols) s.freqs
      else (s1, .ok ())

/-- conversion into a second object (`vdp_out != vdp_in`); returns the new output object -/
def VData.convertInto (c : Cfg V F) (conv : ConvFn V) (sin sout : VData V F) (newtype : Int) : VData V F × Res Unit :=
  match sin.convertCheck newtype with
  | none => (sout, .fail .EINVAL)
  | some d =>
    let newRows := if d.conv = CONV_xtoI then 1 else sin.rows
    let newCols := if d.conv = CONV_xtoI then min sin.rows sin.cols else sin.cols
    let (o, r) := sout.init c 0 newRows newCols sin.freqs
    match r with
    | .ub w => (o, .ub w)
    | .fail e => (o, .fail e)
    | .ok _ =>
      if ¬ (sin.freqs ≤ sin.fAlloc ∧ sin.cells ≤ sin.mAlloc ∧ sin.ports ≤ sin.pAlloc ∧
            o.freqs ≤ o.fAlloc ∧ o.cells ≤ o.mAlloc ∧ o.ports ≤ o.pAlloc ∧ o.ports ≤ sin.pAlloc) then (o, .ub "convert")
      else
      -- frequency vector, impedances, file options
      let o := { o with fvec := fun f => if f < o.freqs then sin.fvec f else o.fvec f }
      let o : VData V F :=
        if ¬ sin.perF then
          let o := o.toZ0 c
          { o with z0 := fun p => if p < o.ports then sin.z0 p else o.z0 p }
        else if sin.freqs = 0 then o
        else
          let o := o.toFz0 c
          { o with fz0 := fun f p => if f < sin.freqs ∧ p < o.ports then sin.fz0 f p else o.fz0 f p }
      let o := { o with filetype := sin.filetype, format := sin.format, fprec := sin.fprec, dprec := sin.dprec }
      if newtype.toNat = sin.type then
        ({ o with data := fun f k => if f < sin.freqs ∧ k < sin.cells then sin.data f k else o.data f k,
                  type := newtype.toNat }, .ok ())
      else
        let out : Nat → List V := fun f => conv d.fn (sin.cellsAt f) (sin.z0At f) sin.rows
        ({ o with data := fun f k => if h : f < sin.freqs ∧ k < (out f).length ∧ k < o.mAlloc then (out f)[k]'h.2.1 else o.data f k,
                  type := newtype.toNat }, .ok ())

end Libvna.VD
