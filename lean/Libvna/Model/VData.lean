/-
Concrete model of `vnadata_t` (src/vnadata_alloc.c, vnadata.h inline accessors, vnadata_*z0*.c,
vnadata_add_frequency.c, vnadata_convert.c) — core-only.

Memory is modelled as content functions together with the allocation sizes the C code keeps
(`pAlloc`, `fAlloc`, `mAlloc`, grow-only).  Every read and write the C performs goes through a
check against those allocation sizes and yields `.ub` when it would fall outside: the theorems in
Props/C15.lean show that, from the invariant, no operation with any arguments returns `.ub`, and
that memory below the allocation but beyond the logical size always holds the initial values
(0, 0, 50 ohm), which is what makes `resize` present fresh cells.

Nothing is assumed about content at or beyond an allocation size (it models uninitialised or
foreign memory), so an operation that forgot to initialise what it allocates cannot satisfy the
invariant.

Values are opaque: `V` (cells, impedances) and `F` (frequencies); the driver instantiates them with
IEEE bit patterns, the theorems hold for every type.
-/
namespace Libvna.VD

/-- error classes (errno values the library documents) -/
inductive Err
  | EINVAL | ENOMEM | EDOM | EBADMSG | ENOENT | ENOPROTOOPT | OTHER
deriving Repr, DecidableEq, Inhabited

/-- outcome of one library call -/
inductive Res (α : Type)
  | ok (a : α)
  | fail (e : Err)          -- documented failure value, errno class e, one error callback
  | ub (what : String)      -- the C would touch memory outside an allocation
deriving Repr

structure Cfg (V F : Type) where
  zero : V
  z50 : V
  fzero : F
  /-- `frequency < 0.0` as the C evaluates it -/
  fneg : F → Bool

/-- parameter types, numbered as in `vnadata_parameter_type_t` -/
abbrev VPT_UNDEF := 0
abbrev VPT_S := 1
abbrev VPT_T := 2
abbrev VPT_U := 3
abbrev VPT_Z := 4
abbrev VPT_Y := 5
abbrev VPT_H := 6
abbrev VPT_G := 7
abbrev VPT_A := 8
abbrev VPT_B := 9
abbrev VPT_ZIN := 10
abbrev VPT_NTYPES := 11

structure VData (V F : Type) where
  type : Nat
  rows : Nat
  cols : Nat
  freqs : Nat
  pAlloc : Nat
  fAlloc : Nat
  mAlloc : Nat
  fvec : Nat → F
  data : Nat → Nat → V
  perF : Bool
  z0 : Nat → V
  fz0 : Nat → Nat → V
  filetype : Nat
  format : Option String
  fprec : Nat
  dprec : Nat

variable {V F : Type}

abbrev VData.ports (s : VData V F) : Nat := max s.rows s.cols
abbrev VData.cells (s : VData V F) : Nat := s.rows * s.cols

/-- `vnadata_alloc`: everything zero / NULL; `junkV`, `junkF` stand for memory never allocated -/
def VData.alloc (junkV : V) (junkF : F) : VData V F :=
  { type := VPT_UNDEF, rows := 0, cols := 0, freqs := 0, pAlloc := 0, fAlloc := 0, mAlloc := 0,
    fvec := fun _ => junkF, data := fun _ _ => junkV, perF := false, z0 := fun _ => junkV,
    fz0 := fun _ _ => junkV, filetype := 0, format := none, fprec := 7, dprec := 6 }

/-- `validate_type` (vnadata_alloc.c); the extracted copy in Gen/Tables.lean is proved equal -/
def validateType (type : Int) (rows cols : Nat) : Bool :=
  if type = 0 then true
  else if type = 1 ∨ type = 4 ∨ type = 5 then rows == cols
  else if type = 2 ∨ type = 3 ∨ type = 6 ∨ type = 7 ∨ type = 8 ∨ type = 9 then rows == 2 && cols == 2
  else if type = 10 then rows == 1
  else false

/-- `_vnadata_extend_p` -/
def VData.extendP (c : Cfg V F) (s : VData V F) (n : Nat) : VData V F :=
  if n > s.pAlloc then
    if s.perF then
      { s with fz0 := fun f p => if f < s.fAlloc ∧ s.pAlloc ≤ p ∧ p < n then c.z50 else s.fz0 f p,
               pAlloc := n }
    else
      { s with z0 := fun p => if s.pAlloc ≤ p ∧ p < n then c.z50 else s.z0 p, pAlloc := n }
  else s

/-- `_vnadata_extend_m` -/
def VData.extendM (c : Cfg V F) (s : VData V F) (n : Nat) : VData V F :=
  if n > s.mAlloc then
    { s with data := fun f k => if f < s.fAlloc ∧ s.mAlloc ≤ k ∧ k < n then c.zero else s.data f k,
             mAlloc := n }
  else s

/-- `_vnadata_extend_f` (with the slot initialisation of the repaired code) -/
def VData.extendF (c : Cfg V F) (s : VData V F) (n : Nat) : VData V F :=
  if n > s.fAlloc then
    { s with fvec := fun f => if s.fAlloc ≤ f ∧ f < n then c.fzero else s.fvec f,
             fz0 := fun f p => if s.perF ∧ s.fAlloc ≤ f ∧ f < n ∧ p < s.pAlloc then c.z50 else s.fz0 f p,
             data := fun f k => if s.fAlloc ≤ f ∧ f < n ∧ k < s.mAlloc then c.zero else s.data f k,
             fAlloc := n }
  else s

/-- the part of `vnadata_resize` after the three extensions: re-initialise what is vacated.
    Returns `none` if a write would fall outside an allocation. -/
def VData.vacate (c : Cfg V F) (s : VData V F) (type rows cols freqs : Nat) : Option (VData V F) :=
  let oldPorts := s.ports
  let newPorts := max rows cols
  let oldCells := s.cells
  let newCells := rows * cols
  -- bounds of every store performed below
  if ¬ (oldPorts ≤ s.pAlloc ∧ oldCells ≤ s.mAlloc ∧ s.freqs ≤ s.fAlloc) then none else
  -- the three re-initialisation passes of the C text, written per field: (1) impedances of vacated
  -- ports, (2) vacated cells, (3) vacated frequencies with their cells and impedances
  some { s with
    z0 := fun p => if ¬ s.perF ∧ newPorts ≤ p ∧ p < oldPorts then c.z50 else s.z0 p
    fz0 := fun f p =>
      if s.perF ∧ freqs ≤ f ∧ f < s.freqs ∧ p < oldPorts then c.z50
      else if s.perF ∧ f < s.freqs ∧ newPorts ≤ p ∧ p < oldPorts then c.z50
      else s.fz0 f p
    data := fun f k =>
      if freqs ≤ f ∧ f < s.freqs ∧ k < oldCells then c.zero
      else if f < s.freqs ∧ newCells ≤ k ∧ k < oldCells then c.zero
      else s.data f k
    fvec := fun f => if freqs ≤ f ∧ f < s.freqs then c.fzero else s.fvec f
    type := type, freqs := freqs, rows := rows, cols := cols }

/-- `vnadata_resize` -/
def VData.resize (c : Cfg V F) (s : VData V F) (type rows cols freqs : Int) : VData V F × Res Unit :=
  if rows < 0 ∨ cols < 0 ∨ freqs < 0 then (s, .fail .EINVAL)
  else if ¬ validateType type rows.toNat cols.toNat then (s, .fail .EINVAL)
  else
    let r := rows.toNat
    let k := cols.toNat
    let s := s.extendP c (max r k)
    let s := s.extendM c (r * k)
    let s := s.extendF c freqs.toNat
    match s.vacate c type.toNat r k freqs.toNat with
    | some s' => (s', .ok ())
    | none => (s, .ub "resize: store outside an allocation")

/-- `_vnadata_convert_to_z0` -/
def VData.toZ0 (c : Cfg V F) (s : VData V F) : VData V F :=
  if s.perF then { s with z0 := fun p => if p < s.pAlloc then c.z50 else s.z0 p, perF := false } else s

/-- `_vnadata_convert_to_fz0` -/
def VData.toFz0 (c : Cfg V F) (s : VData V F) : VData V F :=
  if s.perF then s
  else { s with fz0 := fun f p => if f < s.fAlloc ∧ p < s.pAlloc then (if f < s.freqs then s.z0 p else c.z50) else s.fz0 f p,
                perF := true }

/-- `vnadata_set_all_z0` -/
def VData.setAllZ0 (c : Cfg V F) (s : VData V F) (z : V) : VData V F × Res Unit :=
  let s := s.toZ0 c
  if s.ports ≤ s.pAlloc then
    ({ s with z0 := fun p => if p < s.ports then z else s.z0 p }, .ok ())
  else (s, .ub "set_all_z0: store outside the z0 vector")

/-- `vnadata_init` -/
def VData.init (c : Cfg V F) (s : VData V F) (type rows cols freqs : Int) : VData V F × Res Unit :=
  -- the arguments are checked before anything is reset: a refused call leaves the object as it was
  if rows < 0 ∨ cols < 0 ∨ freqs < 0 then (s, .fail .EINVAL)
  else if ¬ validateType type rows.toNat cols.toNat then (s, .fail .EINVAL)
  else
  let (s, r1) := s.resize c 0 0 0 0
  match r1 with
  | .ub w => (s, .ub w)
  | _ =>
    let (s, r2) := s.setAllZ0 c c.z50
    match r2 with
    | .ub w => (s, .ub w)
    | _ => s.resize c type rows cols freqs

/-- `vnadata_set_type` -/
def VData.setType (s : VData V F) (type : Int) : VData V F × Res Unit :=
  if validateType type s.rows s.cols then ({ s with type := type.toNat }, .ok ()) else (s, .fail .EINVAL)

/-- `vnadata_add_frequency` -/
def VData.addFrequency (c : Cfg V F) (s : VData V F) (x : F) : VData V F × Res Unit :=
  if c.fneg x then (s, .fail .EINVAL)
  else
    let s := if s.freqs + 1 > s.fAlloc then s.extendF c (max 50 (s.fAlloc + s.fAlloc / 2)) else s
    if s.freqs < s.fAlloc then
      ({ s with fvec := fun f => if f = s.freqs then x else s.fvec f, freqs := s.freqs + 1 }, .ok ())
    else (s, .ub "add_frequency: store outside the frequency vector")

/- accessors of vnadata.h (bounds-checked inline functions) -/

def inRange (i : Int) (n : Nat) : Bool := 0 ≤ i && i < n

def VData.getFrequency (s : VData V F) (i : Int) : Res F :=
  if ¬ inRange i s.freqs then .fail .EINVAL
  else if i.toNat < s.fAlloc then .ok (s.fvec i.toNat) else .ub "get_frequency"

def VData.getFmin (s : VData V F) : Res F :=
  if s.freqs = 0 then .fail .EINVAL else if 0 < s.fAlloc then .ok (s.fvec 0) else .ub "get_fmin"

def VData.getFmax (s : VData V F) : Res F :=
  if s.freqs = 0 then .fail .EINVAL
  else if s.freqs - 1 < s.fAlloc then .ok (s.fvec (s.freqs - 1)) else .ub "get_fmax"

def VData.setFrequency (s : VData V F) (i : Int) (x : F) : VData V F × Res Unit :=
  if ¬ inRange i s.freqs then (s, .fail .EINVAL)
  else if i.toNat < s.fAlloc then ({ s with fvec := fun f => if f = i.toNat then x else s.fvec f }, .ok ())
  else (s, .ub "set_frequency")

/-- `vnadata_set_frequency_vector`: copies `freqs` values -/
def VData.setFrequencyVector (s : VData V F) (xs : List F) : VData V F × Res Unit :=
  if s.freqs ≤ s.fAlloc then
    ({ s with fvec := fun f => if h : f < s.freqs ∧ f < xs.length then xs[f]'h.2 else s.fvec f }, .ok ())
  else (s, .ub "set_frequency_vector")

def VData.getCell (s : VData V F) (f r k : Int) : Res V :=
  if ¬ inRange f s.freqs then .fail .EINVAL
  else if ¬ inRange r s.rows then .fail .EINVAL
  else if ¬ inRange k s.cols then .fail .EINVAL
  else
    let idx := r.toNat * s.cols + k.toNat
    if f.toNat < s.fAlloc ∧ idx < s.mAlloc then .ok (s.data f.toNat idx) else .ub "get_cell"

def VData.setCell (s : VData V F) (f r k : Int) (x : V) : VData V F × Res Unit :=
  if ¬ inRange f s.freqs then (s, .fail .EINVAL)
  else if ¬ inRange r s.rows then (s, .fail .EINVAL)
  else if ¬ inRange k s.cols then (s, .fail .EINVAL)
  else
    let idx := r.toNat * s.cols + k.toNat
    if f.toNat < s.fAlloc ∧ idx < s.mAlloc then
      ({ s with data := fun g j => if g = f.toNat ∧ j = idx then x else s.data g j }, .ok ())
    else (s, .ub "set_cell")

/-- `vnadata_get_matrix` followed by reading the `rows*cols` cells -/
def VData.getMatrix (s : VData V F) (f : Int) : Res (List V) :=
  if ¬ inRange f s.freqs then .fail .EINVAL
  else if f.toNat < s.fAlloc ∧ s.cells ≤ s.mAlloc then .ok ((List.range s.cells).map (s.data f.toNat))
  else .ub "get_matrix"

def VData.setMatrix (s : VData V F) (f : Int) (xs : List V) : VData V F × Res Unit :=
  if ¬ inRange f s.freqs then (s, .fail .EINVAL)
  else if f.toNat < s.fAlloc ∧ s.cells ≤ s.mAlloc then
    ({ s with data := fun g j => if h : g = f.toNat ∧ j < s.cells ∧ j < xs.length then xs[j]'h.2.2 else s.data g j }, .ok ())
  else (s, .ub "set_matrix")

def VData.getToVector (s : VData V F) (r k : Int) : Res (List V) :=
  if ¬ inRange r s.rows then .fail .EINVAL
  else if ¬ inRange k s.cols then .fail .EINVAL
  else
    let idx := r.toNat * s.cols + k.toNat
    if s.freqs ≤ s.fAlloc ∧ idx < s.mAlloc then .ok ((List.range s.freqs).map fun f => s.data f idx)
    else .ub "get_to_vector"

def VData.setFromVector (s : VData V F) (r k : Int) (xs : List V) : VData V F × Res Unit :=
  if ¬ inRange r s.rows then (s, .fail .EINVAL)
  else if ¬ inRange k s.cols then (s, .fail .EINVAL)
  else
    let idx := r.toNat * s.cols + k.toNat
    if s.freqs ≤ s.fAlloc ∧ idx < s.mAlloc then
      ({ s with data := fun g j => if h : g < s.freqs ∧ j = idx ∧ g < xs.length then xs[g]'h.2.2 else s.data g j }, .ok ())
    else (s, .ub "set_from_vector")

/- system impedances -/

def VData.getZ0 (s : VData V F) (p : Int) : Res V :=
  if ¬ inRange p s.ports then .fail .EINVAL
  else if s.perF then .fail .EINVAL
  else if p.toNat < s.pAlloc then .ok (s.z0 p.toNat) else .ub "get_z0"

def VData.setZ0 (c : Cfg V F) (s : VData V F) (p : Int) (z : V) : VData V F × Res Unit :=
  if ¬ inRange p s.ports then (s, .fail .EINVAL)
  else
    let s := s.toZ0 c
    if p.toNat < s.pAlloc then ({ s with z0 := fun q => if q = p.toNat then z else s.z0 q }, .ok ())
    else (s, .ub "set_z0")

def VData.getZ0Vector (s : VData V F) : Res (List V) :=
  if s.perF then .fail .EINVAL
  else if s.ports ≤ s.pAlloc then .ok ((List.range s.ports).map s.z0) else .ub "get_z0_vector"

def VData.setZ0Vector (c : Cfg V F) (s : VData V F) (zs : List V) : VData V F × Res Unit :=
  let s := s.toZ0 c
  if s.ports ≤ s.pAlloc then
    ({ s with z0 := fun q => if h : q < s.ports ∧ q < zs.length then zs[q]'h.2 else s.z0 q }, .ok ())
  else (s, .ub "set_z0_vector")

def VData.hasFz0 (s : VData V F) : Bool := s.perF

def VData.getFz0 (s : VData V F) (f p : Int) : Res V :=
  if ¬ inRange f s.freqs then .fail .EINVAL
  else if ¬ inRange p s.ports then .fail .EINVAL
  else if s.perF then
    if f.toNat < s.fAlloc ∧ p.toNat < s.pAlloc then .ok (s.fz0 f.toNat p.toNat) else .ub "get_fz0"
  else if p.toNat < s.pAlloc then .ok (s.z0 p.toNat) else .ub "get_fz0"

def VData.setFz0 (c : Cfg V F) (s : VData V F) (f p : Int) (z : V) : VData V F × Res Unit :=
  if ¬ inRange f s.freqs then (s, .fail .EINVAL)
  else if ¬ inRange p s.ports then (s, .fail .EINVAL)
  else
    let s := s.toFz0 c
    if f.toNat < s.fAlloc ∧ p.toNat < s.pAlloc then
      ({ s with fz0 := fun g q => if g = f.toNat ∧ q = p.toNat then z else s.fz0 g q }, .ok ())
    else (s, .ub "set_fz0")

def VData.getFz0Vector (s : VData V F) (f : Int) : Res (List V) :=
  if ¬ inRange f s.freqs then .fail .EINVAL
  else if s.perF then
    if f.toNat < s.fAlloc ∧ s.ports ≤ s.pAlloc then .ok ((List.range s.ports).map (s.fz0 f.toNat)) else .ub "get_fz0_vector"
  else if s.ports ≤ s.pAlloc then .ok ((List.range s.ports).map s.z0) else .ub "get_fz0_vector"

def VData.setFz0Vector (c : Cfg V F) (s : VData V F) (f : Int) (zs : List V) : VData V F × Res Unit :=
  if ¬ inRange f s.freqs then (s, .fail .EINVAL)
  else
    let s := s.toFz0 c
    if f.toNat < s.fAlloc ∧ s.ports ≤ s.pAlloc then
      ({ s with fz0 := fun g q => if h : g = f.toNat ∧ q < s.ports ∧ q < zs.length then zs[q]'h.2.2 else s.fz0 g q }, .ok ())
    else (s, .ub "set_fz0_vector")

end Libvna.VD
