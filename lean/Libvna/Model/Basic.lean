/- Core-only shared data types for the models (no Mathlib). -/
namespace Libvna

/-- 2x2 matrix in C row-major order -/
structure M2 (K : Type) where
  m11 : K
  m12 : K
  m21 : K
  m22 : K
deriving Repr

/-- 2-vector -/
structure V2 (K : Type) where
  x1 : K
  x2 : K
deriving Repr

end Libvna
