/-
Executable model of the Touchstone option line (`# <unit> <parameter> <format> R <n>`) as
`_vnadata_load_touchstone` reads it: tokens are upper-cased by the scanner, every token sets one field, the last
occurrence wins, `R` takes the following number.  Core-only; tied to the C by the correspondence run of C08.
-/
namespace Libvna.TsOpt

structure Opt (V : Type) where
  mult  : Nat      -- frequencies are multiplied by 10 ^ mult
  param : Char     -- 'S' 'Y' 'Z' 'H' 'G'
  fmt   : Char     -- 'D' (dB/angle) 'M' (magnitude/angle) 'R' (real/imaginary)
  r     : V        -- reference resistance
  deriving Repr, DecidableEq

inductive Item (V : Type) where
  | unit (k : Nat)
  | param (c : Char)
  | fmt (c : Char)
  | r (v : V)
  deriving Repr, DecidableEq

variable {V : Type}

/-- which field an item sets -/
def Item.cat : Item V → Nat
  | .unit _ => 0 | .param _ => 1 | .fmt _ => 2 | .r _ => 3

def apply (o : Opt V) : Item V → Opt V
  | .unit k => { o with mult := k }
  | .param c => { o with param := c }
  | .fmt c => { o with fmt := c }
  | .r v => { o with r := v }

/-- the defaults of the format: GHz S MA R 50 -/
def defaults (fifty : V) : Opt V := { mult := 9, param := 'S', fmt := 'M', r := fifty }

def parseItems (o : Opt V) (items : List (Item V)) : Opt V := items.foldl apply o

/-- upper-cased tokens to items; `none` = the loader reports a syntax error -/
def classify (num? : String → Option V) : List String → Option (List (Item V))
  | [] => some []
  | "R" :: v :: t =>
    match num? v, classify num? t with
    | some x, some l => some (Item.r x :: l)
    | _, _ => none
  | w :: t =>
    let one (i : Item V) := (classify num? t).map (i :: ·)
    if w = "HZ" then one (.unit 0) else if w = "KHZ" then one (.unit 3) else if w = "MHZ" then one (.unit 6)
    else if w = "GHZ" then one (.unit 9) else if w = "THZ" then one (.unit 12)
    else if w = "S" then one (.param 'S') else if w = "Y" then one (.param 'Y') else if w = "Z" then one (.param 'Z')
    else if w = "H" then one (.param 'H') else if w = "G" then one (.param 'G')
    else if w = "DB" then one (.fmt 'D') else if w = "MA" then one (.fmt 'M') else if w = "RI" then one (.fmt 'R')
    else none

def upper (s : String) : String := s.map Char.toUpper

def parse (num? : String → Option V) (fifty : V) (toks : List String) : Option (Opt V) :=
  (classify num? (toks.map upper)).map (parseItems (defaults fifty))

end Libvna.TsOpt
