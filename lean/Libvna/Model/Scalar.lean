/- Executable scalar types for the driver (core-only): IEEE-double complex numbers.
   Doubles cross the line protocol as the 16 hex digits of their IEEE bits, so the C side and the
   model start from the identical real number. -/
namespace Libvna

structure CF where
  re : Float
  im : Float

namespace CF
instance : Inhabited CF := ⟨⟨0, 0⟩⟩
instance : Add CF := ⟨fun a b => ⟨a.re + b.re, a.im + b.im⟩⟩
instance : Sub CF := ⟨fun a b => ⟨a.re - b.re, a.im - b.im⟩⟩
instance : Neg CF := ⟨fun a => ⟨-a.re, -a.im⟩⟩
instance : Mul CF := ⟨fun a b => ⟨a.re * b.re - a.im * b.im, a.re * b.im + a.im * b.re⟩⟩
instance : Div CF := ⟨fun a b =>
  let d := b.re * b.re + b.im * b.im
  ⟨(a.re * b.re + a.im * b.im) / d, (a.im * b.re - a.re * b.im) / d⟩⟩
instance (n : Nat) : OfNat CF n := ⟨⟨n.toFloat, 0⟩⟩
def conj (a : CF) : CF := ⟨a.re, -a.im⟩
/-- sqrt(fabs(x)) of a real quantity (imaginary part ignored, as creal() would have dropped it) -/
def sqa (a : CF) : CF := ⟨Float.sqrt (Float.abs a.re), 0⟩
def ofReal (x : Float) : CF := ⟨x, 0⟩
def abs (a : CF) : Float := Float.sqrt (a.re * a.re + a.im * a.im)
end CF

/-- parse 16 hex digits into a UInt64 -/
def hexToU64? (s : String) : Option UInt64 :=
  if s.length == 0 || s.length > 16 then none else
  s.foldl (init := some (0 : UInt64)) fun acc c =>
    match acc with
    | none => none
    | some v =>
      let d : Option UInt64 :=
        if '0' ≤ c && c ≤ '9' then some (c.toNat - '0'.toNat).toUInt64
        else if 'a' ≤ c && c ≤ 'f' then some (c.toNat - 'a'.toNat + 10).toUInt64
        else if 'A' ≤ c && c ≤ 'F' then some (c.toNat - 'A'.toNat + 10).toUInt64
        else none
      d.map fun d => v * 16 + d

def floatOfHex? (s : String) : Option Float := (hexToU64? s).map Float.ofBits

def hexDigit (n : UInt64) : Char :=
  let n := n.toNat
  if n < 10 then Char.ofNat (n + 48) else Char.ofNat (n - 10 + 97)

def u64ToHex (v : UInt64) : String :=
  String.ofList <| (List.range 16).map fun i => hexDigit ((v >>> (60 - 4 * i).toUInt64) &&& 0xf)

def floatToHex (x : Float) : String := u64ToHex x.toBits

def cfToHex (z : CF) : String := floatToHex z.re ++ " " ++ floatToHex z.im

/-- parse a list of hex words into complex numbers (pairs) -/
def parseCFs : List String → Option (List CF)
  | [] => some []
  | [_] => none
  | a :: b :: rest => do
    let x ← floatOfHex? a
    let y ← floatOfHex? b
    let r ← parseCFs rest
    pure (⟨x, y⟩ :: r)

end Libvna
