/- Executable model of the per-calibration parameter table of a vnacal_new_t (src/vnacal_new_parameter.c: hash_lookup, hash_insert,
   hash_expand): buckets are chains kept in ascending order of the parameter index; a lookup stops at the first larger index. -/
namespace Libvna.PH

structure Tab where
  size : Nat
  chain : Nat → List Nat
  count : Nat

/-- insert before the first larger element (`hash_insert`, and the re-insertion loop of `hash_expand`) -/
def ins (p : Nat) : List Nat → List Nat
  | [] => [p]
  | x :: t => if x > p then p :: x :: t else x :: ins p t

/-- walk a chain: found, or stop at the first larger index (`hash_lookup`) -/
def lookupL (p : Nat) : List Nat → Bool
  | [] => false
  | x :: t => if x = p then true else if x > p then false else lookupL p t

def put (h : Tab) (p : Nat) : Tab :=
  { h with chain := fun i => if i = p % h.size then ins p (h.chain i) else h.chain i }

/-- all elements, chain by chain, in the order `hash_expand` walks them -/
def elems (h : Tab) : List Nat := (List.range h.size).flatMap h.chain

/-- `hash_expand`: twice the size (at least 8), every element re-inserted -/
def expand (h : Tab) : Tab :=
  (elems h).foldl put { size := max (2 * h.size) 8, chain := fun _ => [], count := h.count }

def empty : Tab := expand { size := 0, chain := fun _ => [], count := 0 }

/-- `hash_insert`: link the node, then grow when the count reaches the size -/
def insert (h : Tab) (p : Nat) : Tab :=
  let h1 := { put h p with count := h.count + 1 }
  if h1.count ≥ h1.size then expand h1 else h1

def lookup (h : Tab) (p : Nat) : Bool := lookupL p (h.chain (p % h.size))

/-- the table after registering a sequence of distinct parameter indices -/
def build (ps : List Nat) : Tab := ps.foldl insert empty

end Libvna.PH
