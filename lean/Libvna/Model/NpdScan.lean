/-
Executable model of `scan_line` of src/vnadata_load_npd.c: one record (the next line that has fields) is cut out
of the input; blank lines and `#` comments are skipped, `#:<letter>...` starts a keyword field anywhere in a line.
Bytes are `Nat` codes.  Core-only; total by structural recursion.
-/
namespace Libvna.Npd

def isSpace (c : Nat) : Bool := c = 32 ∨ (9 ≤ c ∧ c ≤ 13)        -- isascii && isspace in the C locale
def isAlpha (c : Nat) : Bool := (65 ≤ c ∧ c ≤ 90) ∨ (97 ≤ c ∧ c ≤ 122)
abbrev NL : Nat := 10
abbrev HASH : Nat := 35
abbrev COLON : Nat := 58

inductive Mode where
  | top        -- between fields
  | skip       -- inside a comment, up to the end of the line
  | hash       -- just after a `#`
  | hashc      -- just after `#:`
  | fld        -- inside a field (`cur` holds it, reversed)
  deriving DecidableEq

structure Res where
  fields : List (List Nat)
  rest   : List Nat

/-- end of a line seen outside a field: a record ends here if it has fields -/
@[inline] def lineEnd (k : List (List Nat) → List Nat → Res) (fields : List (List Nat)) (rest : List Nat) : Res :=
  if fields = [] then k [] rest else ⟨fields.reverse, rest⟩

/-- `fields` and `cur` are accumulated in reverse -/
def scan : Mode → List (List Nat) → List Nat → List Nat → Res
  | .fld, fields, cur, [] => ⟨(cur.reverse :: fields).reverse, []⟩
  | _, fields, _, [] => ⟨fields.reverse, []⟩
  | .fld, fields, cur, c :: rest =>
    if isSpace c then
      if c = NL then ⟨(cur.reverse :: fields).reverse, rest⟩
      else scan .top (cur.reverse :: fields) [] rest
    else scan .fld fields (c :: cur) rest
  | .skip, fields, _, c :: rest =>
    if c = NL then (if fields = [] then scan .top [] [] rest else ⟨fields.reverse, rest⟩)
    else scan .skip fields [] rest
  | .hash, fields, _, c :: rest =>
    if c = COLON then scan .hashc fields [] rest
    else if c = NL then (if fields = [] then scan .top [] [] rest else ⟨fields.reverse, rest⟩)
    else scan .skip fields [] rest
  | .hashc, fields, _, c :: rest =>
    if isAlpha c then scan .fld fields [c, COLON, HASH] rest
    else if c = NL then (if fields = [] then scan .top [] [] rest else ⟨fields.reverse, rest⟩)
    else scan .skip fields [] rest
  | .top, fields, _, c :: rest =>
    if c = NL then (if fields = [] then scan .top [] [] rest else ⟨fields.reverse, rest⟩)
    else if isSpace c then scan .top fields [] rest
    else if c = HASH then scan .hash fields [] rest
    else scan .fld fields [c] rest

/-- one record: its fields and what follows it -/
def scanLine (input : List Nat) : Res := scan .top [] [] input

inductive Kind where
  | eof | keyword | data
  deriving DecidableEq, Repr

def kindOf (r : Res) : Kind :=
  match r.fields with
  | [] => .eof
  | f :: _ => if f.head? = some HASH then .keyword else .data

end Libvna.Npd
