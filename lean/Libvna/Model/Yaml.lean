/-
Model of the YAML export / import of property trees (src/vnaproperty.c `_vnaproperty_yaml_export`,
`_vnaproperty_yaml_import`) — core-only.  libyaml itself is not modelled: a YAML document is the node
tree libyaml hands over (`Y`), and the emitter→file→parser trip is the relation `Contract` stated in
Props/C14.lean.
-/
import Libvna.Model.PropTree

namespace Libvna.PT

inductive Style | plain | other
deriving DecidableEq, Repr

inductive Y
  | scalar (s : Bytes) (st : Style)
  | map (ps : List (Y × Y))
  | seq (xs : List Y)
deriving Inhabited

/-- `is_yaml_null_value`: "~", "null", "Null", "NULL" -/
def isNullText (s : Bytes) : Bool :=
  s == [126] || s == [110, 117, 108, 108] || s == [78, 117, 108, 108] || s == [78, 85, 76, 76]

mutual
/-- `_vnaproperty_yaml_export` -/
def exportY : Node → Y
  | .null => .scalar [126] .plain
  | .scalar s =>
    -- multi-line: literal; null look-alike: double quoted; otherwise libyaml chooses (plain if it can)
    .scalar s (if s.contains 10 || isNullText s then .other else .plain)
  | .map kvs => .map (exportPairs kvs)
  | .list xs => .seq (exportItems xs)
def exportPairs : List (Bytes × Node) → List (Y × Y)
  | [] => []
  | (k, v) :: r => (.scalar (quoteKey k) .plain, exportY v) :: exportPairs r
def exportItems : List Node → List Y
  | [] => []
  | x :: r => exportY x :: exportItems r
end

def exceptGetD (e : Except Err Node) (d : Node) : Node := match e with | .ok n => n | .error _ => d

mutual
/-- `_vnaproperty_yaml_import` into the subtree `root`; `none` = the import fails -/
def importY : Node → Y → Option Node
  | root, .scalar s st =>
    if isNullText s ∧ st = .plain then some root else some (.scalar s)
  | root, .map ps => importPairs (.map (asMap root)) ps
  | root, .seq xs => importItems (.list (asList root)) 0 xs
/-- the pairs of a mapping, in order; non-scalar keys are skipped with a warning -/
def importPairs : Node → List (Y × Y) → Option Node
  | root, [] => some root
  | root, (.scalar k _, v) :: r =>
    match parse k with
    | some (steps, .eof) =>
      -- vnaproperty_set_subtree(rootptr, "%s", key) then import into the returned subtree
      match importY (exceptGetD (getPath (update id root steps) steps) .null) v with
      | none => none
      | some sub => importPairs (update (fun _ => sub) root steps) r
    | _ => none
  | root, (_, _) :: r => importPairs root r
/-- the items of a sequence: item i goes to `[i]` -/
def importItems : Node → Nat → List Y → Option Node
  | root, _, [] => some root
  | root, i, x :: r =>
    match importY (exceptGetD (getPath (update id root [.idx i]) [.idx i]) .null) x with
    | none => none
    | some sub => importItems (update (fun _ => sub) root [.idx i]) (i + 1) r
end

end Libvna.PT
