/-
Model of the property tree (src/vnaproperty.c) — core-only.

  * `Node`: null | scalar | ordered map | list            (the hash chains of the C are not modelled:
    a map is its insertion-ordered association list, which is what every observer sees)
  * the descriptor scanner and the four-state parser, on byte lists
  * `getPath` (descent with set = false), `update` (descent with set = true: create / replace along
    the path), and the public operations built from them, incl. `quoteKey`
-/
namespace Libvna.PT

abbrev Bytes := List UInt8

inductive Node
  | null
  | scalar (s : Bytes)
  | map (kvs : List (Bytes × Node))
  | list (xs : List Node)
deriving Inhabited, Repr

inductive Err | EINVAL | ENOENT | NONE   -- NONE: failure value without errno (reads of a null node)
deriving DecidableEq, Repr

inductive Step
  | key (k : Bytes)
  | idx (i : Nat)
  | ins (i : Nat)
  | app
  | absMap
  | absList
  | dot
deriving DecidableEq, Repr

/-! ### character classes (`ISIDCHAR1`, `ISIDCHAR`, white space) -/

def isAlpha (c : UInt8) : Bool := (65 ≤ c && c ≤ 90) || (97 ≤ c && c ≤ 122)
def isDigit (c : UInt8) : Bool := 48 ≤ c && c ≤ 57
def isId1 (c : UInt8) : Bool := isAlpha c || c ≥ 128 || c == 95 || c == 92
def isId (c : UInt8) : Bool := isAlpha c || isDigit c || c ≥ 128 || c == 32 || c == 95 || c == 45 || c == 92
def isWs (c : UInt8) : Bool := c == 32 || c == 9 || c == 10 || c == 13 || c == 12 || c == 11

def skipWs : Bytes → Bytes
  | [] => []
  | c :: r => if isWs c then skipWs r else c :: r

/-! ### the key scanner: collect (byte, escaped?) pairs, then drop unescaped trailing blanks -/

/-- characters of the key with their "was backslash-escaped" flag; returns `none` when a backslash
    is the last byte of the input (`T_ERROR`) -/
def scanKeyChars : Nat → Bytes → Option (List (UInt8 × Bool) × Bytes)
  | 0, r => some ([], r)
  | _ + 1, [] => some ([], [])
  | fuel + 1, c :: r =>
    if ¬ isId c then some ([], c :: r)
    else if c == 92 then
      match r with
      | [] => none
      | e :: r' =>
        if e == 0 then none else
        (scanKeyChars fuel r').map fun (cs, rest) => ((e, true) :: cs, rest)
    else (scanKeyChars fuel r).map fun (cs, rest) => ((c, false) :: cs, rest)

/-- drop trailing unescaped blanks, never the first character -/
def trimBlanks (cs : List (UInt8 × Bool)) : List (UInt8 × Bool) :=
  match cs with
  | [] => []
  | first :: tl => first :: (tl.reverse.dropWhile (fun p => p.1 == 32 && !p.2)).reverse

def scanKey (input : Bytes) : Option (Bytes × Bytes) :=
  (scanKeyChars (input.length + 1) input).map fun (cs, rest) => ((trimBlanks cs).map (·.1), rest)

def scanDigits : Bytes → Nat → Nat × Bytes
  | [], acc => (acc, [])
  | c :: r, acc => if isDigit c then scanDigits r (acc * 10 + (c.toNat - 48)) else (acc, c :: r)

/-! ### the parser (states 0..3 of `parse`) -/

inductive Tail
  | eof | assign (value : Bytes) | hash | other
deriving Repr

def classifyTail (r : Bytes) : Tail :=
  match skipWs r with
  | [] => .eof
  | c :: v => if c == 61 then .assign v
    else if c == 35 then (if (skipWs v).isEmpty then .hash else .other)      -- nothing may follow the `#`
    else .other

/-- closing of `{}` after the `{` has been consumed -/
def closeCurly (r : Bytes) : Option Bytes :=
  match skipWs r with
  | c :: r' => if c == 125 then some r' else none
  | [] => none

/-- one `[...]` subscript after the `[` has been consumed -/
def parseSubscript (r : Bytes) : Option (Step × Bytes × Bool) :=   -- Bool: true = abstract list `[]` (ends the path)
  match skipWs r with
  | [] => none
  | c :: r' =>
    if isDigit c then
      let (v, r1) := scanDigits (c :: r') 0
      if v > 2147483646 then none else      -- a subscript has to fit in an int, with room for the length
      match skipWs r1 with
      | d :: r2 =>
        if d == 43 then
          match skipWs r2 with
          | e :: r3 => if e == 93 then some (.ins v, r3, false) else none
          | [] => none
        else if d == 93 then some (.idx v, r2, false) else none
      | [] => none
    else if c == 43 then
      match skipWs r' with
      | e :: r3 => if e == 93 then some (.app, r3, false) else none
      | [] => none
    else if c == 93 then some (.absList, r', true)
    else none

/-- the parser; `state` as in the C (0 start, 1 after a dot, 2 after an element); fuel bounds the
    number of path elements -/
def parseLoop : Nat → Nat → Bytes → List Step → Option (List Step × Bytes)
  | 0, _, _, _ => none
  | fuel + 1, state, input, acc =>
    match skipWs input with
    | [] =>
      if state == 1 then some (acc ++ [.dot], []) else if state == 2 then some (acc, []) else none
    | c :: r =>
      if c == 46 ∧ (state == 0 ∨ state == 2) then parseLoop fuel 1 r acc
      else if isId1 c ∧ state ≠ 2 then
        match scanKey (c :: r) with
        | none => none
        | some (k, rest) => parseLoop fuel 2 rest (acc ++ [.key k])
      else if c == 91 then
        match parseSubscript r with
        | none => none
        | some (st, rest, true) => some (acc ++ [st], rest)
        | some (st, rest, false) => parseLoop fuel 2 rest (acc ++ [st])
      else if c == 123 then
        match closeCurly r with
        | none => none
        | some rest => some (acc ++ [.absMap], rest)
      else if state == 1 then some (acc ++ [.dot], c :: r)
      else if state == 2 then some (acc, c :: r)
      else none

def parse (d : Bytes) : Option (List Step × Tail) :=
  (parseLoop (d.length + 2) 0 d []).map fun (steps, rest) => (steps, classifyTail rest)

/-! ### association lists -/

def alookup (k : Bytes) : List (Bytes × Node) → Option Node
  | [] => none
  | (k', v) :: r => if k' = k then some v else alookup k r

/-- replace the value of an existing key, or append a new pair (insertion order is kept) -/
def aset (k : Bytes) (v : Node) : List (Bytes × Node) → List (Bytes × Node)
  | [] => [(k, v)]
  | (k', v') :: r => if k' = k then (k, v) :: r else (k', v') :: aset k v r

def aerase (k : Bytes) : List (Bytes × Node) → List (Bytes × Node)
  | [] => []
  | (k', v') :: r => if k' = k then r else (k', v') :: aerase k r

/-! ### descent -/

/-- descent with `set = false` (`parse_and_descend` for readers and delete) -/
def getPath : Node → List Step → Except Err Node
  | n, [] => .ok n
  | n, .dot :: _ => .ok n
  | n, .absMap :: _ =>
    match n with
    | .null => .error .ENOENT
    | .map _ => .ok n
    | _ => .error .EINVAL
  | n, .absList :: _ =>
    match n with
    | .null => .error .ENOENT
    | .list _ => .ok n
    | _ => .error .EINVAL
  | n, .key k :: rest =>
    match n with
    | .null => .error .ENOENT
    | .map kvs => match alookup k kvs with
      | none => .error .ENOENT
      | some c => getPath c rest
    | _ => .error .EINVAL
  | n, .idx i :: rest =>
    match n with
    | .null => .error .ENOENT
    | .list xs => match xs[i]? with
      | none => .error .ENOENT
      | some c => getPath c rest
    | _ => .error .EINVAL
  | n, .ins _ :: _ =>
    match n with
    | .null => .error .ENOENT
    | .list _ => .error .EINVAL
    | _ => .error .EINVAL
  | n, .app :: _ =>
    match n with
    | .null => .error .ENOENT
    | .list _ => .error .EINVAL
    | _ => .error .EINVAL

def asMap : Node → List (Bytes × Node)
  | .map kvs => kvs
  | _ => []

def asList : Node → List Node
  | .list xs => xs
  | _ => []

def padTo (xs : List Node) (n : Nat) : List Node := xs ++ List.replicate (n - xs.length) .null

/-- descent with `set = true`: make the tree conform to the path, then apply `f` to the addressed node -/
def update (f : Node → Node) : Node → List Step → Node
  | n, [] => f n
  | n, .dot :: _ => f n
  | n, .absMap :: _ => f (.map (asMap n))
  | n, .absList :: _ => f (.list (asList n))
  | n, .key k :: rest =>
    let kvs := asMap n
    let child := (alookup k kvs).getD .null
    .map (aset k (update f child rest) kvs)
  | n, .idx i :: rest =>
    let xs := padTo (asList n) (i + 1)
    .list (xs.set i (update f (xs[i]?.getD .null) rest))
  | n, .ins i :: rest =>
    let xs := asList n
    if i ≥ xs.length then
      let xs := padTo xs (i + 1)
      .list (xs.set i (update f (xs[i]?.getD .null) rest))
    else .list (xs.take i ++ [update f .null rest] ++ xs.drop i)
  | n, .app :: rest => .list (asList n ++ [update f .null rest])

/-! ### the public operations -/

def isSetTail : List Step → Bool
  | [] => false
  | steps => match steps.getLast? with
    | some .absMap => false
    | some .absList => false
    | _ => true

/-- `vnaproperty_set` (with the validation-before-descent of the repaired code) -/
def opSet (root : Node) (d : Bytes) : Node × Except Err Unit :=
  match parse d with
  | none => (root, .error .EINVAL)
  | some (steps, tail) =>
    if ¬ isSetTail steps then (root, .error .EINVAL) else
    match tail with
    | .assign v => (update (fun _ => .scalar v) root steps, .ok ())
    | .hash => (update (fun _ => .null) root steps, .ok ())
    | _ => (root, .error .EINVAL)

def opSetSubtree (root : Node) (d : Bytes) : Node × Except Err Unit :=
  match parse d with
  | none => (root, .error .EINVAL)
  | some (steps, .eof) => (update id root steps, .ok ())
  | some (_, _) => (root, .error .EINVAL)

/-- common part of the readers: parse, descend, then require end of input -/
def readNode (root : Node) (d : Bytes) : Except Err Node :=
  match parse d with
  | none => .error .EINVAL
  | some (steps, tail) =>
    match getPath root steps with
    | .error e => .error e
    | .ok n => match tail with
      | .eof => .ok n
      | _ => .error .EINVAL

/-- remove the last path element from its collection (`map_delete` / `list_delete`), or null the node -/
def deleteAt : Node → List Step → Node
  | n, [] => n
  | .map kvs, [.key k] => .map (aerase k kvs)
  | .list xs, [.idx i] => .list (xs.eraseIdx i)
  | _, [.dot] => .null
  | _, [.absMap] => .null
  | _, [.absList] => .null
  | .map kvs, .key k :: rest =>
    match alookup k kvs with
    | some c => .map (aset k (deleteAt c rest) kvs)
    | none => .map kvs
  | .list xs, .idx i :: rest =>
    match xs[i]? with
    | some c => .list (xs.set i (deleteAt c rest))
    | none => .list xs
  | n, _ => n

def opDelete (root : Node) (d : Bytes) : Node × Except Err Unit :=
  match parse d with
  | none => (root, .error .EINVAL)
  | some (steps, tail) =>
    match getPath root steps with
    | .error e => (root, .error e)
    | .ok _ =>
      match tail with
      | .eof => (deleteAt root steps, .ok ())
      | _ => (root, .error .EINVAL)

/-- `vnaproperty_quote_key`, positions ≥ 1: a byte is escaped when it is not an identifier byte, is a
    backslash, or belongs to the run of blanks that ends the key -/
def quoteRest : Bytes → Bytes
  | [] => []
  | c :: r =>
    (if !isId c || c == 92 || (c == 32 && r.all (· == 32)) then [92, c] else [c]) ++ quoteRest r

/-- `vnaproperty_quote_key` -/
def quoteKey : Bytes → Bytes
  | [] => []
  | c :: r => (if !isId1 c || c == 92 then [92, c] else [c]) ++ quoteRest r

end Libvna.PT
