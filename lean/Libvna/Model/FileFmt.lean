/-
Executable model of the format-level logic of the network-data file code (src/vnadata_save.c,
vnadata_load_touchstone.c, vnadata_load_npd.c): the order in which Touchstone value pairs address matrix
cells, the digit layout of `print_value` (engineering notation), the field bookkeeping of NPD lines.
Core-only; tied to the compiled C by the correspondence runs of tools/props/c06.py / c08.py.
-/
namespace Libvna.FF

/-- `[Matrix Format]` of a Touchstone 2 file -/
inductive MF where
  | full | upper | lower
  deriving DecidableEq, Repr

/-- the (row, column) pairs in the order in which `_vnadata_load_touchstone` consumes the value pairs of
    one frequency (the three nested loops of the `switch (matrix_format)`) -/
def order (n : Nat) : MF → List (Nat × Nat)
  | .full  => (List.range n).flatMap fun r => (List.range n).map fun c => (r, c)
  | .upper => (List.range n).flatMap fun r => ((List.range n).filter fun c => r ≤ c).map fun c => (r, c)
  | .lower => (List.range n).flatMap fun r => (List.range (r + 1)).map fun c => (r, c)

/-- cells written by one value pair: `vnadata_set_cell(row, column)` — transposed when the two-port order is
    21_12 — and for Upper / Lower also the mirror cell -/
def targets (mf : MF) (t21 : Bool) (p : Nat × Nat) : List (Nat × Nat) :=
  match mf with
  | .full  => if t21 then [(p.2, p.1)] else [p]
  | .upper => [p, (p.2, p.1)]
  | .lower => [p, (p.2, p.1)]

variable {α : Type}

def put (m : Nat → Nat → α) (rc : Nat × Nat) (x : α) : Nat → Nat → α :=
  fun r c => if r = rc.1 ∧ c = rc.2 then x else m r c

/-- one value pair stored -/
def store (mf : MF) (t21 : Bool) (m : Nat → Nat → α) (e : (Nat × Nat) × α) : Nat → Nat → α :=
  (targets mf t21 e.1).foldl (fun m rc => put m rc e.2) m

/-- all value pairs of one frequency stored, in order -/
def load (mf : MF) (t21 : Bool) (entries : List ((Nat × Nat) × α)) (m0 : Nat → Nat → α) : Nat → Nat → α :=
  entries.foldl (store mf t21) m0

/-- what the saver writes for one frequency: row-major, except that a Touchstone 1 two-port file holds
    11 21 12 22 (`vnadata_get_cell(matrix, findex, column, row)` in vnadata_save.c) -/
def saveOrder (n : Nat) (ts1 : Bool) : List (Nat × Nat) :=
  if ts1 ∧ n = 2 then [(0, 0), (1, 0), (0, 1), (1, 1)] else order n .full

/-! ### print_value: engineering notation -/

/-- number of mantissa digits `print_value` puts before the decimal point, from the precision `p` (≥ 1) and
    the decimal exponent `e` of the `%.{p-1}e` rendering -/
def engBefore (p : Nat) (e : Int) : Int :=
  if p = 1 then 1
  else if p = 2 then
    let t := e + 1
    if t ≥ 0 then t % 3 else 2 - (-t - 1) % 3
  else
    (if e ≥ 0 then e % 3 else 2 - (-e - 1) % 3) + 1

/-- the exponent that is then printed (`exponent -= before - 1`) -/
def engExp (p : Nat) (e : Int) : Int := e - (engBefore p e - 1)

/-- characters `print_value` writes into `buf2` (without the terminating NUL): sign, the `p` mantissa digits,
    the decimal point if there are digits after it or the exponent is zero, then `e±dd[d]` or four blanks of padding -/
def engLen (p : Nat) (e : Int) (signed pad : Bool) : Int :=
  let b := engBefore p e
  let x := engExp p e
  (if signed then 1 else 0) + b
    + (if (p : Int) - b > 0 ∨ x = 0 then 1 + ((p : Int) - b) else 0)
    + (if x ≠ 0 then (if x ≥ 100 ∨ x ≤ -100 then 5 else 4) else if pad then 4 else 0)

/-! ### NPD field bookkeeping -/

inductive Kind where
  | ri | ma | db | prc | prl | src | srl | il | rl | vswr
  deriving DecidableEq, Repr

/-- fields one format block occupies in a data line as `vnadata_save.c` writes it (`isZin`: the block's
    parameter is Zin) -/
def fieldsW (k : Kind) (isZin : Bool) (ports : Nat) : Nat :=
  match k with
  | .ri | .ma | .db => if isZin then 2 * ports else 2 * ports * ports
  | .prc | .prl | .src | .srl => 2 * ports
  | .il => ports * (ports - 1)
  | .rl | .vswr => ports

/-- fields the loader reserves for the block (`fields` in `_vnadata_load_npd`) -/
def fieldsL (k : Kind) (isZin : Bool) (ports : Nat) : Nat :=
  if isZin then 2 * ports
  else match k with
    | .il => ports * (ports - 1)
    | .rl | .vswr => ports
    | _ => 2 * ports * ports

/-- the loader's "quality" of a block: 0 = cannot be loaded -/
def quality (k : Kind) (isZin : Bool) : Nat :=
  match isZin, k with
  | true, .ri => 3
  | true, .prc => 2
  | true, .prl => 2
  | true, .src => 2
  | true, .srl => 2
  | true, .ma => 1
  | true, _ => 0
  | false, .ri => 6
  | false, .ma => 5
  | false, .db => 4
  | false, _ => 0

/-- value pairs the loader reads from the chosen block -/
def cellsRead (isZin : Bool) (ports : Nat) : Nat := if isZin then ports else ports * ports

/-- offset of block `i` in the line: 1 (frequency) + per-frequency z0 fields + the blocks before it -/
def offset (fz0 : Bool) (ports : Nat) (blocks : List (Kind × Bool)) (i : Nat) : Nat :=
  1 + (if fz0 then 2 * ports else 0) + ((blocks.take i).map fun b => fieldsL b.1 b.2 ports).sum

def lineFields (fz0 : Bool) (ports : Nat) (blocks : List (Kind × Bool)) : Nat :=
  offset fz0 ports blocks blocks.length

end Libvna.FF
