/-
Model of the two handle tables of a `vnacal_t` (src/vnacal_parameter.c, vnacal_calibration.c,
vnacal_new_parameter.c) — core-only.

  * the parameter table: a slot vector that grows 0→3→8→×2, a `first_free` hint, a live count, per slot a
    deleted flag and a hold count; holders are the user (until delete), other parameters (unknown /
    correlated keep their `other`) and every vnacal_new_t that used the handle
  * the calibration table: a sparse slot vector that grows 0→1→8→×2; add by name replaces in place
-/
namespace Libvna.CT

structure PRec where
  kind : Nat            -- 1 scalar, 2 vector, 3 unknown, 4 correlated
  other : Option Nat    -- the parameter an unknown / correlated one refers to
  deleted : Bool
  hold : Nat
deriving Repr, DecidableEq

structure PTab where
  slots : List (Option PRec)
  firstFree : Nat
  count : Nat
deriving Repr

def PTab.empty : PTab := { slots := [], firstFree := 0, count := 0 }

def growP (n : Nat) : Nat := if n < 3 then 3 else if n < 8 then 8 else 2 * n

/-- first index ≥ `i` holding `none` (fuel bounds the scan) -/
def scanFree (slots : List (Option PRec)) : Nat → Nat → Nat
  | 0, i => i
  | fuel + 1, i => match slots[i]? with
    | some (some _) => scanFree slots fuel (i + 1)
    | _ => i

/-- `_vnacal_alloc_parameter`: returns the table with the new record in place and its index -/
def PTab.alloc (t : PTab) (r : PRec) : PTab × Nat :=
  if t.count < t.slots.length then
    let i := scanFree t.slots t.slots.length t.firstFree
    ({ slots := t.slots.set i (some r), firstFree := i + 1, count := t.count + 1 }, i)
  else
    let n := growP t.slots.length
    let slots := t.slots ++ List.replicate (n - t.slots.length) none
    ({ slots := slots.set t.count (some r), firstFree := t.count + 1, count := t.count + 1 }, t.count)

/-- `_vnacal_get_parameter`: the handle names a live, not deleted parameter -/
def PTab.valid (t : PTab) (h : Int) : Bool :=
  if h < 0 then false else
  match t.slots[h.toNat]? with
  | some (some r) => !r.deleted
  | _ => false

def PTab.get? (t : PTab) (i : Nat) : Option PRec := (t.slots[i]?).join

/-- `_vnacal_release_parameter` (fuel bounds the chain of `other` links) -/
def PTab.release : Nat → PTab → Nat → PTab
  | 0, t, _ => t
  | fuel + 1, t, i =>
    match t.get? i with
    | none => t
    | some r =>
      if r.hold > 1 then { t with slots := t.slots.set i (some { r with hold := r.hold - 1 }) }
      else
        -- last reference: the slot is freed, then the reference it kept on `other` is dropped
        let t1 : PTab := { slots := t.slots.set i none, firstFree := min t.firstFree i, count := t.count - 1 }
        match r.other with
        | some o => PTab.release fuel t1 o
        | none => t1

def PTab.hold (t : PTab) (i : Nat) : PTab :=
  match t.get? i with
  | some r => { t with slots := t.slots.set i (some { r with hold := r.hold + 1 }) }
  | none => t

/-- `_vnacal_setup_parameter_collection`: match, open, short at 0, 1, 2 -/
def PTab.setup : PTab :=
  let r : PRec := { kind := 1, other := none, deleted := false, hold := 1 }
  let t := (PTab.empty.alloc r).1
  let t := (t.alloc r).1
  (t.alloc r).1

/-- make scalar / vector (no reference to another parameter) -/
def PTab.makePlain (t : PTab) (kind : Nat) : PTab × Nat :=
  t.alloc { kind := kind, other := none, deleted := false, hold := 1 }

/-- make unknown / correlated: `other` must be valid and is held -/
def PTab.makeRef (t : PTab) (kind : Nat) (other : Int) : PTab × Option Nat :=
  if t.valid other then
    let (t1, i) := t.alloc { kind := kind, other := some other.toNat, deleted := false, hold := 1 }
    (t1.hold other.toNat, some i)
  else (t, none)

/-- `vnacal_delete_parameter`: `some true` = success, `some false` = refused -/
def PTab.delete (t : PTab) (h : Int) : PTab × Bool :=
  if h < 0 then (t, false)
  else if h < 3 then (t, true)
  else if t.valid h then
    match t.get? h.toNat with
    | some r =>
      let t1 : PTab := { t with slots := t.slots.set h.toNat (some { r with deleted := true }) }
      (PTab.release (t.slots.length + 1) t1 h.toNat, true)
    | none => (t, false)
  else (t, false)

/-! ### the calibration table -/

def growC (n : Nat) : Nat := if n = 0 then 1 else if n = 1 then 8 else 2 * n

def findName (name : String) : List (Option String) → Nat → Option Nat
  | [], _ => none
  | some n :: r, i => if n = name then some i else findName name r (i + 1)
  | none :: r, i => findName name r (i + 1)

def firstNone : List (Option String) → Nat → Option Nat
  | [], _ => none
  | none :: _, i => some i
  | some _ :: r, i => firstNone r (i + 1)

/-- `_vnacal_add_calibration_common`: (new table, index) -/
def addCal (slots : List (Option String)) (name : String) : List (Option String) × Nat :=
  match findName name slots 0 with
  | some i => (slots.set i (some name), i)
  | none =>
    match firstNone slots 0 with
    | some i => (slots.set i (some name), i)
    | none =>
      let n := growC slots.length
      let s := slots ++ List.replicate (n - slots.length) none
      (s.set slots.length (some name), slots.length)

def deleteCal (slots : List (Option String)) (ci : Int) : List (Option String) × Bool :=
  if ci < 0 then (slots, false) else
  match slots[ci.toNat]? with
  | some (some _) => (slots.set ci.toNat none, true)
  | _ => (slots, false)

/-- `vnacal_get_calibration_end`: one past the highest live index -/
def calEnd : List (Option String) → Nat
  | [] => 0
  | s => match s.reverse.dropWhile (· == none) with
    | [] => 0
    | l => l.length

/-- what `vnacal_save` iterates over: the live names in index order -/
def saveList (slots : List (Option String)) : List String := slots.filterMap id

/-- what `vnacal_load` builds: the saved calibrations added one by one -/
def loadList (names : List String) : List (Option String) := names.foldl (fun s n => (addCal s n).1) []

end Libvna.CT
