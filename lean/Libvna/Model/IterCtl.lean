/-
Control of the iteration in `_vnacal_new_solve_auto` (src/vnacal_new_solve_auto.c):

    for (iteration = 0; ; ++iteration) {
        ... one Levenberg–Marquardt step ...
        if (best && within tolerances) break;                 /* converged */
        if (iteration >= vn_iteration_limit) { error; goto out; }
    }

`step` and `conv` stand for the numerical step and the tolerance test.  Core-only.
-/
namespace Libvna.Iter

inductive Res (σ : Type) where
  | converged (s : σ) (evals : Nat)
  | failed (evals : Nat)
  deriving Repr

variable {σ : Type}

def Res.evals : Res σ → Nat
  | .converged _ k => k
  | .failed k => k

/-- `fuel` makes the recursion structural; with `fuel = limit + 1 - it` it never runs out -/
def loop (step : σ → σ) (conv : σ → Bool) (limit : Nat) : Nat → Nat → σ → Res σ
  | 0, it, _ => .failed it
  | fuel + 1, it, s =>
    let s' := step s
    if conv s' then .converged s' (it + 1)
    else if it ≥ limit then .failed (it + 1)
    else loop step conv limit fuel (it + 1) s'

def run (step : σ → σ) (conv : σ → Bool) (limit : Nat) (s0 : σ) : Res σ :=
  loop step conv limit (limit + 1) 0 s0

/-- k-fold application -/
def iter (step : σ → σ) : Nat → σ → σ
  | 0, s => s
  | k + 1, s => iter step k (step s)

end Libvna.Iter
