/-
`chisq_pvalue` of src/vnacal_new_solve_pvalue.c for an even number of degrees of freedom (the only case
`_vnacal_new_solve_calc_pvalue` produces: every complex equation contributes two), generic over the scalar type.
Core-only.  (Where `exp(-x)` is below the smallest normal double or the sum overflows the C function adds the same terms from their
logarithms instead: a floating-point fallback with the same mathematical value, not part of this model — over ℝ it never applies;
the check compares that range with the chi-square survival function.)
-/
namespace Libvna.PV

variable {K : Type} [Add K] [Mul K] [Div K] [Neg K] [OfNat K 0] [OfNat K 1] [OfNat K 2]

/-- the loop `f = 1; s = 0; for (i = 0; i < k; ++i) { if (i != 0) f *= x / i; s += f; }` : (f, s) after k rounds -/
def loopSum (cast : Nat → K) (x : K) : Nat → K × K
  | 0 => (1, 0)
  | k + 1 =>
    let fs := loopSum cast x k
    let f' := if k = 0 then fs.1 else fs.1 * (x / cast k)
    (f', fs.2 + f')

/-- p-value for `n = 2 k` degrees of freedom and statistic `x2` -/
def pEven (exp : K → K) (le : K → K → Bool) (cast : Nat → K) (k : Nat) (x2 : K) : K :=
  let x := x2 / 2
  if le x 0 then 1 else exp (-x) * (loopSum cast x k).2

end Libvna.PV
