/- Executable model of the leakage-term averaging of `_vnacal_new_solve_start_frequency` (src/vnacal_new_solve.c): the error-term
   types with leakage terms outside the linear system (TE10, UE10, UE14, E12) take, for every off-diagonal measurement cell, the
   mean of the measurements of that cell over the standards that measured it and have no signal path through it. -/
import Libvna.Model.Scalar

namespace Libvna.LK
variable {K : Type} [Add K] [Div K] [OfNat K 0] [OfNat K 1]

/-- one added standard as the loop sees it: per measurement cell the value if the cell was given (abbreviated matrices leave
    cells out) and whether the standard connects that pair of ports -/
structure Std (K : Type) where
  m : Nat → Option K
  conn : Nat → Bool

/-- does this standard contribute a leakage sample for `cell`? -/
def sample (s : Std K) (cell : Nat) : Option K :=
  if s.conn cell then none else s.m cell

/-- (sum, count) over the standards, in list order -/
def accum (cell : Nat) : List (Std K) → K × Nat
  | [] => (0, 0)
  | s :: rest =>
    let (sm, ct) := accum cell rest
    match sample s cell with
    | some v => (v + sm, ct + 1)
    | none => (sm, ct)

def natK : Nat → K
  | 0 => 0
  | n + 1 => natK n + 1

/-- the leakage term of `cell` (row ≠ column): the mean of the samples, zero without a sample -/
def leak (stds : List (Std K)) (cell : Nat) : K :=
  let (sm, ct) := accum cell stds
  if ct = 0 then 0 else sm / natK ct

end Libvna.LK
