/- Executable model of the n-port conversions (src/vnaconv_*n.c), core-only, over flat row-major arrays. -/
import Libvna.Model.LinAlg

namespace Libvna.ConvN
open Libvna.LA
variable {K : Type} [Add K] [Sub K] [Mul K] [Div K] [Neg K] [OfNat K 0] [OfNat K 1] [OfNat K 2] [Inhabited K]

/-- the n×n array with entries f i j (row-major, as the C fills it cell by cell) -/
def mk (n : Nat) (f : Nat → Nat → K) : Array K :=
  (Array.range (n * n)).map fun idx => f (idx / n) (idx % n)

/-- rescale off-diagonal cells: `X(i,j) *= f(i,j)` for i ≠ j -/
def rescale (x : Array K) (n : Nat) (f : Nat → Nat → K) : Array K :=
  mk n fun i j => if i != j then get x n i j * f i j else get x n i j

def kvec (cj sqa : K → K) (z0 : Array K) (n : Nat) : Array K :=
  (Array.range n).map fun i => sqa ((z0[i]! + cj z0[i]!) / 2)

/-- I − S -/
def oneMinus (s : Array K) (n : Nat) : Array K :=
  mk n fun i j => if i == j then -(get s n i j) + 1 else -(get s n i j)
/-- diag(z0*) + S diag(z0) -/
def zcPlusSz (cj : K → K) (s z0 : Array K) (n : Nat) : Array K :=
  mk n fun i j => if i == j then get s n i j * z0[j]! + cj z0[i]! else get s n i j * z0[j]!
/-- Z + diag(z0) -/
def zPlus (z z0 : Array K) (n : Nat) : Array K :=
  mk n fun i j => if i == j then get z n i j + z0[i]! else get z n i j
/-- Z − diag(z0*) -/
def zMinus (cj : K → K) (z z0 : Array K) (n : Nat) : Array K :=
  mk n fun i j => if i == j then get z n i j - cj z0[i]! else get z n i j
/-- I − diag(z0*) Y -/
def oneMinusZcY (cj : K → K) (y z0 : Array K) (n : Nat) : Array K :=
  mk n fun i j => if i == j then -(cj z0[i]!) * get y n i j + 1 else -(cj z0[i]!) * get y n i j
/-- I + diag(z0) Y -/
def onePlusZY (y z0 : Array K) (n : Nat) : Array K :=
  mk n fun i j => if i == j then z0[i]! * get y n i j + 1 else z0[i]! * get y n i j

/-- `vnaconv_stozn`: a = I − S, b = diag(z0*) + S diag(z0), Z = a⁻¹ b, Z(i,j) *= ki/kj -/
def stozn (mag : K → Float) (cj sqa : K → K) (s z0 : Array K) (n : Nat) : Array K :=
  if n = 0 then #[] else
  let k := kvec cj sqa z0 n
  rescale (mldivide mag (oneMinus s n) (zcPlusSz cj s z0 n) n n).1 n fun i j => k[i]! / k[j]!

/-- `vnaconv_stoyn`: a = diag(z0*) + S diag(z0), b = I − S, Y = a⁻¹ b, Y(i,j) *= ki/kj -/
def stoyn (mag : K → Float) (cj sqa : K → K) (s z0 : Array K) (n : Nat) : Array K :=
  if n = 0 then #[] else
  let k := kvec cj sqa z0 n
  rescale (mldivide mag (zcPlusSz cj s z0 n) (oneMinus s n) n n).1 n fun i j => k[i]! / k[j]!

/-- `vnaconv_ztosn`: b = Z − diag(z0*), a = Z + diag(z0), S = b a⁻¹, S(i,j) *= kj/ki -/
def ztosn (mag : K → Float) (cj sqa : K → K) (z z0 : Array K) (n : Nat) : Array K :=
  if n = 0 then #[] else
  let k := kvec cj sqa z0 n
  rescale (mrdivide mag (zMinus cj z z0 n) (zPlus z z0 n) n n).1 n fun i j => k[j]! / k[i]!

/-- `vnaconv_ytosn`: b = I − diag(z0*) Y, a = I + diag(z0) Y, S = b a⁻¹, S(i,j) *= kj/ki -/
def ytosn (mag : K → Float) (cj sqa : K → K) (y z0 : Array K) (n : Nat) : Array K :=
  if n = 0 then #[] else
  let k := kvec cj sqa z0 n
  rescale (mrdivide mag (oneMinusZcY cj y z0 n) (onePlusZY y z0 n) n n).1 n fun i j => k[j]! / k[i]!

/-- `vnaconv_ztoyn` / `vnaconv_ytozn`: matrix inverse -/
def inv (mag : K → Float) (z : Array K) (n : Nat) : Array K :=
  if n = 0 then #[] else (minverse mag z n).1

/-- `vnaconv_stozin` -/
def stozin (cj : K → K) (s z0 : Array K) (n : Nat) : Array K :=
  (Array.range n).map fun i =>
    let sii := s[(n + 1) * i]!
    (sii * z0[i]! + cj z0[i]!) / (1 - sii)

/-- `vnaconv_ztozin`: x = (Z + diag z0)⁻¹, zi = 1/x_ii − z0_i -/
def ztozin (mag : K → Float) (z z0 : Array K) (n : Nat) : Array K := Id.run do
  if n = 0 then return #[]
  let mut a : Array K := z
  for i in [0:n] do
    a := set a n i i (get a n i i + z0[i]!)
  let (x, _) := minverse mag a n
  return (Array.range n).map fun i => 1 / get x n i i - z0[i]!

/-- `vnaconv_ytozin`: S (unscaled) from Y, then the stozin formula on its diagonal -/
def ytozin (mag : K → Float) (cj : K → K) (y z0 : Array K) (n : Nat) : Array K := Id.run do
  if n = 0 then return #[]
  let mut a : Array K := Array.replicate (n * n) 0
  let mut b : Array K := Array.replicate (n * n) 0
  for i in [0:n] do
    for j in [0:n] do
      b := set b n i j (-(cj z0[i]!) * get y n i j)
      a := set a n i j (z0[i]! * get y n i j)
    b := set b n i i (get b n i i + 1)
    a := set a n i i (get a n i i + 1)
  let (s, _) := mrdivide mag b a n n
  return (Array.range n).map fun i =>
    let sii := get s n i i
    (sii * z0[i]! + cj z0[i]!) / (1 - sii)

/-- dispatch by C function name -/
def call (mag : K → Float) (cj sqa : K → K) (fn : String) (m z0 : Array K) (n : Nat) : Option (Array K) :=
  match fn with
  | "vnaconv_stozn" => some (stozn mag cj sqa m z0 n)
  | "vnaconv_stoyn" => some (stoyn mag cj sqa m z0 n)
  | "vnaconv_ztosn" => some (ztosn mag cj sqa m z0 n)
  | "vnaconv_ytosn" => some (ytosn mag cj sqa m z0 n)
  | "vnaconv_ztoyn" => some (inv mag m n)
  | "vnaconv_ytozn" => some (inv mag m n)
  | "vnaconv_stozin" => some (stozin cj m z0 n)
  | "vnaconv_ztozin" => some (ztozin mag m z0 n)
  | "vnaconv_ytozin" => some (ytozin mag cj m z0 n)
  | _ => none

end Libvna.ConvN
