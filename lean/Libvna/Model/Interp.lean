/-
Model of the interpolators (src/vnacal_rfi.c, src/vnacommon_spline.c) — core-only.

`_vnacal_rfi` is modelled as its control skeleton: clamp the segment hint, walk down or up to the
segment that bounds x, return the knot value when x is (within EPS of) a knot, otherwise hand
(segment, x) to the Bulirsch–Stoer body, which is a parameter.  What the property needs — exactness
at the knots for any hint, independence of the hint — lives entirely in that skeleton.

The cubic spline is modelled completely (coefficients from the second derivatives, the tridiagonal
elimination, the evaluation with binary search), generic over the scalar operations.
-/
namespace Libvna.Interp

section rfi
variable {K : Type}

/-- `while (segment > 0 && x < xp[segment]) --segment;` -/
def descend (lt : K → K → Bool) (xs : Nat → K) (x : K) : Nat → Nat
  | 0 => 0
  | s + 1 => if lt x (xs (s + 1)) then descend lt xs x s else s + 1

/-- `while (segment < n - 2 && x > xp[segment + 1]) ++segment;` (fuel = number of iterations left) -/
def ascend (lt : K → K → Bool) (xs : Nat → K) (x : K) (n : Nat) : Nat → Nat → Nat
  | 0, seg => seg
  | fuel + 1, seg => if seg + 2 < n ∧ lt (xs (seg + 1)) x then ascend lt xs x n fuel (seg + 1) else seg

/-- bound the hint to 0 .. n-2 -/
def clampHint (n : Nat) (hint : Int) : Nat :=
  if hint < 0 then 0 else if hint.toNat > n - 2 then n - 2 else hint.toNat

def findSegment (lt : K → K → Bool) (xs : Nat → K) (n : Nat) (hint : Int) (x : K) : Nat :=
  let seg := clampHint n hint
  if lt x (xs seg) then descend lt xs x seg else ascend lt xs x n n seg

/-- `_vnacal_rfi`; `near a b` is `fabs(a - b) <= EPS`, `body seg x` the rational-function value -/
def rfi (lt near : K → K → Bool) (body : Nat → K → K) (xs ys : Nat → K) (n : Nat) (hint : Int) (x : K) : K :=
  if n < 2 then ys 0
  else
    let seg := findSegment lt xs n hint x
    if near x (xs seg) then ys seg
    else if near x (xs (seg + 1)) then ys (seg + 1)
    else body seg x
end rfi

section spline
variable {K : Type} [Add K] [Sub K] [Mul K] [Div K] [OfNat K 0] [OfNat K 2] [OfNat K 3] [OfNat K 6]

/-- coefficients (b, c, d) of segment i from the knots and the second derivatives `sp` -/
def coefB (xs ys sp : Nat → K) (i : Nat) : K :=
  (ys (i + 1) - ys i) / (xs (i + 1) - xs i) - (xs (i + 1) - xs i) / 3 * sp i - (xs (i + 1) - xs i) / 6 * sp (i + 1)
def coefC (sp : Nat → K) (i : Nat) : K := sp i / 2
def coefD (xs sp : Nat → K) (i : Nat) : K := (sp (i + 1) - sp i) / (6 * (xs (i + 1) - xs i))

/-- the cubic of segment i -/
def segValue (xs ys sp : Nat → K) (i : Nat) (x : K) : K :=
  ys i + (x - xs i) * (coefB xs ys sp i + (x - xs i) * (coefC sp i + (x - xs i) * coefD xs sp i))

/-- forward elimination of the tridiagonal system: (u_i, v_i) for i = 0 .. -/
def elim (xs ys : Nat → K) : Nat → K × K
  | 0 =>
    let h0 := xs 1 - xs 0; let h1 := xs 2 - xs 1
    let m0 := (ys 1 - ys 0) / h0; let m1 := (ys 2 - ys 1) / h1
    (2 * (h0 + h1), 6 * (m1 - m0))
  | i + 1 =>
    let (u, v) := elim xs ys i
    let h := xs (i + 2) - xs (i + 1); let h' := xs (i + 3) - xs (i + 2)
    let m := (ys (i + 2) - ys (i + 1)) / h; let m' := (ys (i + 3) - ys (i + 2)) / h'
    (2 * (h + h') - h * h / u, 6 * (m' - m) - h * v / u)

/-- back substitution: second derivative at knot i of an n-segment spline (`sp[0] = sp[n] = 0`);
    `k` counts down from n -/
def secondDeriv (xs ys : Nat → K) (n : Nat) : Nat → Nat → K
  | 0, _ => 0
  | fuel + 1, i =>
    if i = 0 ∨ i ≥ n then 0
    else
      let (u, v) := elim xs ys (i - 1)
      (v - (xs (i + 1) - xs i) * secondDeriv xs ys n fuel (i + 1)) / u

/-- second derivatives as `_vnacommon_spline_calc` computes them (all zero for a single segment) -/
def splineSp (xs ys : Nat → K) (n : Nat) (i : Nat) : K :=
  if n < 2 then 0 else secondDeriv xs ys n (n + 1 - i) i

/-- the binary search of `_vnacommon_spline_eval` -/
def bsearch (lt : K → K → Bool) (xs : Nat → K) (x : K) : Nat → Nat → Nat → Nat
  | 0, low, high => (low + high) / 2
  | fuel + 1, low, high =>
    let i := (low + high) / 2
    if low ≥ high then i
    else if lt x (xs i) then bsearch lt xs x fuel low (i - 1)
    else if ¬ lt x (xs (i + 1)) then bsearch lt xs x fuel (i + 1) high
    else i

/-- `_vnacommon_spline_eval` for n ≥ 1 segments -/
def splineEval (lt : K → K → Bool) (xs ys : Nat → K) (n : Nat) (x : K) : K :=
  let sp := splineSp xs ys n
  if lt x (xs 0) then coefB xs ys sp 0 * (x - xs 0) + ys 0
  else if ¬ lt x (xs n) then
    let dx := xs n - xs (n - 1)
    (coefB xs ys sp (n - 1) + dx * (2 * coefC sp (n - 1) + dx * 3 * coefD xs sp (n - 1))) * (x - xs n) + ys n
  else segValue xs ys sp (bsearch lt xs x n 0 (n - 1)) x
end spline

/-- the range tests of the four call sites (`VNACAL_F_EXTRAPOLATION` slack eps), as predicates:
    refuse iff pmin > (1+eps) fmin or pmax < (1-eps) fmax -/
def rangeRefused {K : Type} [Add K] [Sub K] [Mul K] [OfNat K 1] (lt : K → K → Bool)
    (eps pmin pmax fmin fmax : K) : Bool :=
  lt ((1 + eps) * fmin) pmin || lt pmax ((1 - eps) * fmax)

end Libvna.Interp
