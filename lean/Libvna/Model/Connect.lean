/-
The union-find of `build_connectivity_matrix` (src/vnacal_new_add_common.c): which pairs of VNA ports have a signal path through a
calibration standard.  `set` is a function here (the C array `set[s_ports]`), `find` is the C function of that name, `union` is
the body of the double loop over the off-diagonal cells that are not known to be zero, `conn` is the matrix of bool built at the end.
Core-only: linked into the model driver.
-/
namespace Libvna.UF

/-- `set[k] = v` -/
@[noinline] def upd (s : Nat → Nat) (k v : Nat) : Nat → Nat := fun x => if x = k then v else s x

/-- `while (set[leader] != leader) leader = set[leader];` — entries never exceed their index (`Inv` in Props/C20Conn), so the loop
    started at `i` ends within `i` steps; the fuel is that bound -/
def root (s : Nat → Nat) : Nat → Nat → Nat
  | 0, i => i
  | f + 1, i => if s i = i then i else root s f (s i)

@[noinline] def rt (s : Nat → Nat) (i : Nat) : Nat := root s i i

/-- `find(set, index)`: the leader, and the collapsing loop as written — `for (i = index; set[i] != leader; i = set[i]) set[i] = leader;`
    re-points `index` itself; after that assignment `i = set[i]` is the leader, whose entry is itself, and the loop ends -/
@[noinline] def find (s : Nat → Nat) (i : Nat) : (Nat → Nat) × Nat :=
  let l := rt s i
  (upd s i l, l)

/-- the array between two steps of the loop.  (A structure, so that the compiled model builds each table once: a definition
    whose result is a function is compiled with that function's argument as one more parameter, and every look-up would redo the
    whole history of the table.) -/
structure Box where
  f : Nat → Nat

/-- one off-diagonal cell (r, c) that is not known to be zero: the smaller leader becomes the leader of both sets -/
def unionB (b : Box) (r c : Nat) : Box :=
  let p := find b.f r
  let q := find p.1 c
  if p.2 < q.2 then ⟨upd q.1 q.2 p.2⟩ else if q.2 < p.2 then ⟨upd q.1 p.2 q.2⟩ else ⟨q.1⟩

def union (s : Nat → Nat) (r c : Nat) : Nat → Nat := (unionB ⟨s⟩ r c).f

/-- the cells the double loop acts on, in its (row-major) order -/
def edges (nz : Nat → Nat → Bool) (rows cols : Nat) : List (Nat × Nat) :=
  (List.range rows).flatMap fun r => (List.range cols).filterMap fun c => if r ≠ c ∧ nz r c = true then some (r, c) else none

def buildB (nz : Nat → Nat → Bool) (rows cols : Nat) : Box :=
  (edges nz rows cols).foldl (fun b e => unionB b e.1 e.2) ⟨id⟩

def build (nz : Nat → Nat → Bool) (rows cols : Nat) : Nat → Nat := (buildB nz rows cols).f

/-- `vnm_connectivity_matrix[i * s_ports + j]` -/
def conn (nz : Nat → Nat → Bool) (rows cols : Nat) (i j : Nat) : Bool :=
  i == j || rt (build nz rows cols) i == rt (build nz rows cols) j

/-- the whole matrix for `n` ports, row by row, with the table built once -/
def connAll (nz : Nat → Nat → Bool) (rows cols n : Nat) : List Bool :=
  let s := (buildB nz rows cols).f
  (List.range (n * n)).map fun k => k / n == k % n || rt s (k / n) == rt s (k % n)

end Libvna.UF
