/-
Executable model of the dense linear algebra kernels (src/vnacommon_lu.c, _mldivide.c, _mrdivide.c,
_minverse.c) — core-only, generic over the scalar operations and a magnitude function used only
for pivot selection.  Matrices are flat row-major arrays, as in the C.
-/
import Libvna.Model.Scalar

namespace Libvna.LA

variable {K : Type} [Add K] [Sub K] [Mul K] [Div K] [Neg K] [OfNat K 0] [OfNat K 1] [Inhabited K]

@[inline] def get (a : Array K) (n i j : Nat) : K := a[i * n + j]!
@[inline] def set (a : Array K) (n i j : Nat) (x : K) : Array K := a.set! (i * n + j) x

/-- `_vnacommon_lu`: Crout LU with the C's pivot rule (row_scale[i] * |s|, strict >, first best).
    Returns (factored a, row_index, determinant). -/
def lu (mag : K → Float) (a0 : Array K) (n : Nat) : Array K × Array Nat × K := Id.run do
  let mut a := a0
  let mut d : K := 1
  let mut rowScale : Array Float := Array.replicate n 0.0
  let mut rowIndex : Array Nat := Array.range n
  for i in [0:n] do
    let mut mx : Float := 0.0
    for j in [0:n] do
      let t := mag (get a n i j)
      if t > mx then mx := t
    rowScale := rowScale.set! i mx
  for j in [0:n] do
    let mut best := j
    let mut bestV : Float := 0.0
    for i in [0:j] do
      let mut s := get a n i j
      for k in [0:i] do
        s := s - get a n i k * get a n k j
      a := set a n i j s
    for i in [j:n] do
      let mut s := get a n i j
      for k in [0:j] do
        s := s - get a n i k * get a n k j
      a := set a n i j s
      let t := rowScale[i]! * mag s
      if t > bestV then
        best := i
        bestV := t
    if best != j then
      for k in [0:n] do
        let t := get a n best k
        a := set a n best k (get a n j k)
        a := set a n j k t
      let it := rowIndex[best]!
      rowIndex := rowIndex.set! best rowIndex[j]!
      rowIndex := rowIndex.set! j it
      rowScale := rowScale.set! best rowScale[j]!
      d := d * (-(1 : K))
    d := d * get a n j j
    if j + 1 != n then
      let scale := (1 : K) / get a n j j
      for i in [j+1:n] do
        a := set a n i j (get a n i j * scale)
  return (a, rowIndex, d)

/-- `_vnacommon_mldivide`: X = A⁻¹ B, A m×m, B m×n. Returns (X, determinant). -/
def mldivide (mag : K → Float) (a0 : Array K) (b : Array K) (m n : Nat) : Array K × K := Id.run do
  let (a, rowIndex, d) := lu mag a0 m
  let mut x : Array K := Array.replicate (m * n) (0 : K)
  for j in [0:n] do
    for i in [0:m] do
      let mut s := b[rowIndex[i]! * n + j]!
      for k in [0:i] do
        s := s - get a m i k * x[k * n + j]!
      x := x.set! (i * n + j) s
    for ii in [0:m] do
      let i := m - 1 - ii
      let mut s := x[i * n + j]!
      for k in [i+1:m] do
        s := s - get a m i k * x[k * n + j]!
      x := x.set! (i * n + j) (s / get a m i i)
  return (x, d)

/-- `_vnacommon_mrdivide`: X = B A⁻¹, B m×n, A n×n -/
def mrdivide (mag : K → Float) (b : Array K) (a0 : Array K) (m n : Nat) : Array K × K := Id.run do
  let (a, rowIndex, d) := lu mag a0 n
  let mut x : Array K := Array.replicate (m * n) (0 : K)
  for i in [0:m] do
    for j in [0:n] do
      let mut s := b[i * n + j]!
      for k in [0:j] do
        s := s - get a n k j * x[i * n + rowIndex[k]!]!
      x := x.set! (i * n + rowIndex[j]!) (s / get a n j j)
    for jj in [0:n] do
      let j := n - 1 - jj
      let mut s := x[i * n + rowIndex[j]!]!
      for k in [j+1:n] do
        s := s - get a n k j * x[i * n + rowIndex[k]!]!
      x := x.set! (i * n + rowIndex[j]!) s
  return (x, d)

/-- `_vnacommon_minverse` -/
def minverse (mag : K → Float) (a0 : Array K) (n : Nat) : Array K × K := Id.run do
  let (a, rowIndex, d) := lu mag a0 n
  let mut x : Array K := Array.replicate (n * n) (0 : K)
  for j in [0:n] do
    for i in [0:n] do
      let mut s : K := if rowIndex[i]! == j then 1 else 0
      for k in [0:i] do
        s := s - get a n i k * x[k * n + j]!
      x := x.set! (i * n + j) s
    for ii in [0:n] do
      let i := n - 1 - ii
      let mut s := x[i * n + j]!
      for k in [i+1:n] do
        s := s - get a n i k * x[k * n + j]!
      x := x.set! (i * n + j) (s / get a n i i)
  return (x, d)

end Libvna.LA
