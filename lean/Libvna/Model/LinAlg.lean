/-
Executable model of the dense linear algebra kernels (src/vnacommon_lu.c, _mldivide.c, _mrdivide.c,
_minverse.c, _qrd.c, _qrsolve.c) — core-only, generic over the scalar operations and a magnitude function used only
for pivot selection.  Matrices are flat row-major arrays, as in the C.
-/
import Libvna.Model.Scalar

namespace Libvna.LA

variable {K : Type} [Add K] [Sub K] [Mul K] [Div K] [Neg K] [OfNat K 0] [OfNat K 1] [Inhabited K]

@[inline] def get (a : Array K) (n i j : Nat) : K := a[i * n + j]!
@[inline] def set (a : Array K) (n i j : Nat) (x : K) : Array K := a.set! (i * n + j) x

/-- inner product loop of `_vnacommon_lu`: `s = a[i][j]; for (k = 0; k < lim; ++k) s -= a[i][k] * a[k][j];` -/
def dotSub (a : Array K) (n i j : Nat) : Nat → K
  | 0 => get a n i j
  | k + 1 => dotSub a n i j k - get a n i k * get a n k j

/-- rows 0..cnt-1 of column j (the U part): `a[i][j] -= Σ_{k<i} a[i][k] a[k][j]`, ascending i -/
def upper (n j : Nat) : Nat → Array K → Array K
  | 0, a => a
  | i + 1, a =>
    let a' := upper n j i a
    set a' n i j (dotSub a' n i j i)

/-- rows j..j+cnt-1 of column j: `a[i][j] -= Σ_{k<j} a[i][k] a[k][j]`, and the pivot search
    (row_scale[i] * |s|, strict >, first best).  Returns (a, best, bestV). -/
def lower (mag : K → Float) (rowScale : Array Float) (n j : Nat) : Nat → Array K → Array K × Nat × Float
  | 0, a => (a, j, 0.0)
  | m + 1, a =>
    let (a', best, bestV) := lower mag rowScale n j m a
    let i := j + m
    let s := dotSub a' n i j j
    let a'' := set a' n i j s
    let t := rowScale[i]! * mag s
    if t > bestV then (a'', i, t) else (a'', best, bestV)

/-- exchange the first cnt columns of rows r1 and r2 -/
def swapRows (n r1 r2 : Nat) : Nat → Array K → Array K
  | 0, a => a
  | k + 1, a =>
    let a' := swapRows n r1 r2 k a
    let t := get a' n r1 k
    set (set a' n r1 k (get a' n r2 k)) n r2 k t

/-- rows j+1..j+cnt of column j multiplied by `scale` -/
def scaleCol (n j : Nat) (scale : K) : Nat → Array K → Array K
  | 0, a => a
  | m + 1, a =>
    let a' := scaleCol n j scale m a
    set a' n (j + 1 + m) j (get a' n (j + 1 + m) j * scale)

/-- row_scale[i] = 1 / max_j |a[i][j]| (0 for a zero row) -/
def rowScales (mag : K → Float) (a : Array K) (n : Nat) : Array Float := Id.run do
  let mut rowScale : Array Float := Array.replicate n 0.0
  for i in [0:n] do
    let mut mx : Float := 0.0
    for j in [0:n] do
      let t := mag (get a n i j)
      if t > mx then mx := t
    rowScale := rowScale.set! i (if mx != 0.0 then 1.0 / mx else 0.0)
  return rowScale

structure LUState (K : Type) where
  a : Array K
  rowIndex : Array Nat
  rowScale : Array Float
  d : K

/-- one column of the Crout loop -/
def colStep (mag : K → Float) (n : Nat) (st : LUState K) (j : Nat) : LUState K :=
  let a1 := upper n j j st.a
  let r := lower mag st.rowScale n j (n - j) a1
  let best := r.2.1
  let a3 := if best != j then swapRows n best j n r.1 else r.1
  let ri3 := if best != j then (st.rowIndex.set! best st.rowIndex[j]!).set! j st.rowIndex[best]! else st.rowIndex
  let rs3 := if best != j then st.rowScale.set! best st.rowScale[j]! else st.rowScale
  let d3 := if best != j then st.d * (-(1 : K)) else st.d
  let a4 := if j + 1 != n then scaleCol n j ((1 : K) / get a3 n j j) (n - (j + 1)) a3 else a3
  { a := a4, rowIndex := ri3, rowScale := rs3, d := d3 * get a3 n j j }

def luLoop (mag : K → Float) (n : Nat) : Nat → LUState K → LUState K
  | 0, st => st
  | j + 1, st => colStep mag n (luLoop mag n j st) j

/-- `_vnacommon_lu`: Crout LU with the C's pivot rule (row_scale[i] * |s|, strict >, first best).
    Returns (factored a, row_index, determinant). -/
def lu (mag : K → Float) (a0 : Array K) (n : Nat) : Array K × Array Nat × K :=
  let st := luLoop mag n n { a := a0, rowIndex := Array.range n, rowScale := rowScales mag a0 n, d := 1 }
  (st.a, st.rowIndex, st.d)

/-- `s = s0; for (k = 0; k < cnt; ++k) s -= f(k);` -/
def accSub (s0 : K) (f : Nat → K) : Nat → K
  | 0 => s0
  | k + 1 => accSub s0 f k - f k

/-- forward substitution on column j of x (rows 0..cnt-1): `x[i][j] = rhs i − Σ_{k<i} a[i][k] x[k][j]` -/
def fwdCol (a : Array K) (rhs : Nat → K) (m n j : Nat) : Nat → Array K → Array K
  | 0, x => x
  | i + 1, x =>
    let x' := fwdCol a rhs m n j i x
    x'.set! (i * n + j) (accSub (rhs i) (fun k => get a m i k * x'[k * n + j]!) i)

/-- back substitution on column j of x (rows m-1 down to m-cnt): `x[i][j] = (x[i][j] − Σ_{k>i} a[i][k] x[k][j]) / a[i][i]` -/
def backCol (a : Array K) (m n j : Nat) : Nat → Array K → Array K
  | 0, x => x
  | c + 1, x =>
    let x' := backCol a m n j c x
    let i := m - 1 - c
    x'.set! (i * n + j)
      (accSub x'[i * n + j]! (fun t => get a m i (i + 1 + t) * x'[(i + 1 + t) * n + j]!) (m - (i + 1)) / get a m i i)

/-- columns 0..cnt-1 of the solution -/
def solveCols (a : Array K) (rhs : Nat → Nat → K) (m n : Nat) : Nat → Array K → Array K
  | 0, x => x
  | j + 1, x => backCol a m n j m (fwdCol a (fun i => rhs i j) m n j m (solveCols a rhs m n j x))

/-- `_vnacommon_mldivide`: X = A⁻¹ B, A m×m, B m×n. Returns (X, determinant). -/
def mldivide (mag : K → Float) (a0 : Array K) (b : Array K) (m n : Nat) : Array K × K :=
  let r := lu mag a0 m
  (solveCols r.1 (fun i j => b[r.2.1[i]! * n + j]!) m n n (Array.replicate (m * n) (0 : K)), r.2.2)

/-- `_vnacommon_minverse` -/
def minverse (mag : K → Float) (a0 : Array K) (n : Nat) : Array K × K :=
  let r := lu mag a0 n
  (solveCols r.1 (fun i j => if r.2.1[i]! == j then (1 : K) else 0) n n n (Array.replicate (n * n) (0 : K)), r.2.2)

/-- row i of `_vnacommon_mrdivide`, first loop (j ascending): `x[i][ri[j]] = (b[i][j] − Σ_{k<j} a[k][j] x[i][ri[k]]) / a[j][j]` -/
def mrFwd (a b : Array K) (ri : Array Nat) (n i : Nat) : Nat → Array K → Array K
  | 0, x => x
  | j + 1, x =>
    let x' := mrFwd a b ri n i j x
    x'.set! (i * n + ri[j]!) (accSub b[i * n + j]! (fun k => get a n k j * x'[i * n + ri[k]!]!) j / get a n j j)

/-- second loop (j descending from n-1): `x[i][ri[j]] −= Σ_{k>j} a[k][j] x[i][ri[k]]` -/
def mrBack (a : Array K) (ri : Array Nat) (n i : Nat) : Nat → Array K → Array K
  | 0, x => x
  | c + 1, x =>
    let x' := mrBack a ri n i c x
    let j := n - 1 - c
    x'.set! (i * n + ri[j]!)
      (accSub x'[i * n + ri[j]!]! (fun t => get a n (j + 1 + t) j * x'[i * n + ri[j + 1 + t]!]!) (n - (j + 1)))

/-- rows 0..cnt-1 -/
def mrRows (a b : Array K) (ri : Array Nat) (n : Nat) : Nat → Array K → Array K
  | 0, x => x
  | i + 1, x => mrBack a ri n i n (mrFwd a b ri n i n (mrRows a b ri n i x))

/-- `_vnacommon_mrdivide`: X = B A⁻¹, B m×n, A n×n -/
def mrdivide (mag : K → Float) (b : Array K) (a0 : Array K) (m n : Nat) : Array K × K :=
  let r := lu mag a0 n
  (mrRows r.1 b r.2.1 n m (Array.replicate (m * n) (0 : K)), r.2.2)

/-! ### Householder QR: `_vnacommon_qrd`, `_vnacommon_qrsolve` (src/vnacommon_qrd.c, vnacommon_qrsolve.c) -/

/-- the scalar operations of the Householder kernels that are not field operations -/
structure QROps (K : Type) where
  conj : K → K
  /-- `_vnacommon_cabs2`, as a scalar -/
  abs2 : K → K
  /-- `-cexp(I * carg(a)) * sqrt(s)` from the diagonal entry `a` and the squared column norm `s` -/
  alpha : K → K → K
  /-- `sqrt` of a real scalar -/
  rsqrt : K → K

/-- `subdot`: Σ over rows d+1 .. d+cnt of |A(row, d)|² -/
def sumAbs2 (ops : QROps K) (a : Array K) (n d : Nat) : Nat → K
  | 0 => 0
  | k + 1 => sumAbs2 ops a n d k + ops.abs2 (get a n (d + 1 + k) d)

/-- rows d .. d+cnt-1 of column d divided by `nrm` -/
def divCol (n d : Nat) (nrm : K) : Nat → Array K → Array K
  | 0, a => a
  | k + 1, a =>
    let a' := divCol n d nrm k a
    set a' n (d + k) d (get a' n (d + k) d / nrm)

/-- `temp`: Σ over rows d .. d+cnt-1 of conj A(row, d) * A(row, col) -/
def colDot (ops : QROps K) (a : Array K) (n d col : Nat) : Nat → K
  | 0 => 0
  | k + 1 => colDot ops a n d col k + ops.conj (get a n (d + k) d) * get a n (d + k) col

/-- rows d .. d+cnt-1: `A(row, col) -= 2 temp A(row, d)` -/
def colUpd (n d col : Nat) (t : K) : Nat → Array K → Array K
  | 0, a => a
  | k + 1, a =>
    let a' := colUpd n d col t k a
    set a' n (d + k) col (get a' n (d + k) col - (1 + 1) * t * get a' n (d + k) d)

/-- columns d+1 .. d+cnt reflected -/
def reflectCols (ops : QROps K) (m n d : Nat) : Nat → Array K → Array K
  | 0, a => a
  | c + 1, a =>
    let a' := reflectCols ops m n d c a
    colUpd n d (d + 1 + c) (colDot ops a' n d (d + 1 + c) (m - d)) (m - d) a'

structure QRState (K : Type) where
  a : Array K
  dv : Array K

/-- one pass of the `diagonal` loop of `_vnacommon_qrd` -/
def qrdStep (ops : QROps K) (m n : Nat) (st : QRState K) (d : Nat) : QRState K :=
  let add := get st.a n d d
  let subdot := sumAbs2 ops st.a n d (m - d - 1)
  let alpha := ops.alpha add (ops.abs2 add + subdot)
  let a1 := set st.a n d d (add - alpha)
  let nrm := ops.rsqrt (ops.abs2 (add - alpha) + subdot)
  let a2 := divCol n d nrm (m - d) a1
  { a := reflectCols ops m n d (n - d - 1) a2, dv := st.dv.set! d alpha }

def qrdLoop (ops : QROps K) (m n : Nat) : Nat → QRState K → QRState K
  | 0, st => st
  | k + 1, st => qrdStep ops m n (qrdLoop ops m n k st) k

/-- `_vnacommon_qrd`: A m×n in place (reflector vectors on and below the diagonal, R above), the diagonal of R in `dv` -/
def qrd (ops : QROps K) (a : Array K) (m n : Nat) : QRState K :=
  qrdLoop ops m n (min m n) { a := a, dv := Array.replicate (min m n) 0 }

/-- `s`: Σ over rows i .. i+cnt-1 of conj A(j, i) * B(j, k) -/
def bDot (ops : QROps K) (a b : Array K) (n o i k : Nat) : Nat → K
  | 0 => 0
  | t + 1 => bDot ops a b n o i k t + ops.conj (get a n (i + t) i) * get b o (i + t) k

/-- rows i .. i+cnt-1: `B(j, k) -= 2 s A(j, i)` -/
def bUpd (a : Array K) (n o i k : Nat) (s : K) : Nat → Array K → Array K
  | 0, b => b
  | t + 1, b =>
    let b' := bUpd a n o i k s t b
    set b' o (i + t) k (get b' o (i + t) k - (1 + 1) * s * get a n (i + t) i)

/-- reflectors 0 .. cnt-1 applied to column k of B -/
def applyQ (ops : QROps K) (a : Array K) (m n o k : Nat) : Nat → Array K → Array K
  | 0, b => b
  | i + 1, b =>
    let b' := applyQ ops a m n o k i b
    bUpd a n o i k (bDot ops a b' n o i k (m - i)) (m - i) b'

/-- back substitution, rows diag-1 down to diag-cnt: `X(i,k) = (B(i,k) - Σ_{j=i+1}^{diag-1} A(i,j) X(j,k)) / d[i]` -/
def qrBack (a dv b : Array K) (n o k diag : Nat) : Nat → Array K → Array K
  | 0, x => x
  | c + 1, x =>
    let x' := qrBack a dv b n o k diag c x
    let i := diag - 1 - c
    set x' o i k (accSub (get b o i k) (fun t => get a n i (i + 1 + t) * get x' o (i + 1 + t) k) (diag - (i + 1)) / dv[i]!)

/-- columns 0 .. cnt-1 of the solution; returns (B, X) -/
def qrCols (ops : QROps K) (a dv : Array K) (m n o : Nat) : Nat → Array K × Array K → Array K × Array K
  | 0, bx => bx
  | k + 1, bx =>
    let p := qrCols ops a dv m n o k bx
    let b' := applyQ ops a m n o k (min m n) p.1
    (b', qrBack a dv b' n o k (min m n) (min m n) p.2)

/-- `_vnacommon_qrsolve`: least-squares solution X (n×o) of A X = B, A m×n, B m×o; rows of X beyond min(m,n) are zero.
    Returns (X, d): the rank test on `d` (isnormal) is the caller's. -/
def qrsolve (ops : QROps K) (a0 b0 : Array K) (m n o : Nat) : Array K × Array K :=
  let st := qrd ops a0 m n
  ((qrCols ops st.a st.dv m n o o (b0, Array.replicate (n * o) 0)).2, st.dv)

/-! ### explicit Q and R, and the solve from them: `_vnacommon_qr`, `_vnacommon_qrsolve2` -/

/-- the m×n array with entries f i j (row-major) -/
def mkR (m n : Nat) (f : Nat → Nat → K) : Array K :=
  (Array.range (m * n)).map fun idx => f (idx / n) (idx % n)

/-- `_vnacommon_qr`, row i of Q at diagonal d: `s = Σ_{j=d}^{m-1} Q(i,j) A(j,d)` -/
def qDot (a q : Array K) (m n d i : Nat) : Nat → K
  | 0 => 0
  | t + 1 => qDot a q m n d i t + get q m i (d + t) * get a n (d + t) d

/-- columns d .. d+cnt-1 of row i: `Q(i,j) -= 2 s conj(A(j,d))` -/
def qUpd (ops : QROps K) (a : Array K) (m n d i : Nat) (s : K) : Nat → Array K → Array K
  | 0, q => q
  | t + 1, q =>
    let q' := qUpd ops a m n d i s t q
    set q' m i (d + t) (get q' m i (d + t) - (1 + 1) * s * ops.conj (get a n (d + t) d))

/-- rows 0 .. cnt-1 of Q multiplied from the right by reflector d -/
def qRows (ops : QROps K) (a : Array K) (m n d : Nat) : Nat → Array K → Array K
  | 0, q => q
  | i + 1, q =>
    let q' := qRows ops a m n d i q
    qUpd ops a m n d i (qDot a q' m n d i (m - d)) (m - d) q'

/-- reflectors 0 .. cnt-1 accumulated into Q -/
def qAccum (ops : QROps K) (a : Array K) (m n : Nat) : Nat → Array K → Array K
  | 0, q => q
  | d + 1, q => qRows ops a m n d m (qAccum ops a m n d q)

/-- `_vnacommon_qr`: returns (Q m×m, R m×n, d) -/
def qr (ops : QROps K) (a0 : Array K) (m n : Nat) : Array K × Array K × Array K :=
  let st := qrd ops a0 m n
  let q := qAccum ops st.a m n (min m n) (mkR m m fun i j => if i = j then 1 else 0)
  let r := mkR m n fun i j => if i < j then get st.a n i j else if i = j then st.dv[j]! else 0
  (q, r, st.dv)

/-- `s = Σ_{k<cnt} conj(Q(k,i)) B(k,j)` -/
def qtbDot (ops : QROps K) (q b : Array K) (m o i j : Nat) : Nat → K
  | 0 => 0
  | k + 1 => qtbDot ops q b m o i j k + ops.conj (get q m k i) * get b o k j

/-- `_vnacommon_qrsolve2`, column j of X, rows diag-1 down to diag-cnt:
    `X(i,j) = (Σ_k conj Q(k,i) B(k,j) - Σ_{k=i+1}^{diag-1} R(i,k) X(k,j)) / R(i,i)` -/
def qs2Back (ops : QROps K) (q r b : Array K) (m n o j diag : Nat) : Nat → Array K → Array K
  | 0, x => x
  | c + 1, x =>
    let x' := qs2Back ops q r b m n o j diag c x
    let i := diag - 1 - c
    set x' o i j (accSub (qtbDot ops q b m o i j m) (fun t => get r n i (i + 1 + t) * get x' o (i + 1 + t) j) (diag - (i + 1)) / get r n i i)

def qs2Cols (ops : QROps K) (q r b : Array K) (m n o : Nat) : Nat → Array K → Array K
  | 0, x => x
  | j + 1, x => qs2Back ops q r b m n o j (min m n) (min m n) (qs2Cols ops q r b m n o j x)

/-- `_vnacommon_qrsolve2`: X n×o from Q, R and B m×o; rows of X beyond min(m,n) are zero -/
def qrsolve2 (ops : QROps K) (q r b : Array K) (m n o : Nat) : Array K :=
  qs2Cols ops q r b m n o o (Array.replicate (n * o) 0)

end Libvna.LA

namespace Libvna
/-- the IEEE-double instance: what the C computes, operation by operation -/
def cfQROps : LA.QROps CF where
  conj := CF.conj
  abs2 := fun z => ⟨z.re * z.re + z.im * z.im, 0⟩
  alpha := fun a s =>
    let th := Float.atan2 a.im a.re
    let r := Float.sqrt s.re
    ⟨-(Float.cos th) * r, -(Float.sin th) * r⟩
  rsqrt := fun s => ⟨Float.sqrt s.re, 0⟩
end Libvna

