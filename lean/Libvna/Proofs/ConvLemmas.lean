/- Helper lemmas for the generated two-port conversion theorems. -/
import Libvna.Spec.ConvRel
import Mathlib.Tactic.FieldSimp
import Mathlib.Tactic.Ring
import Mathlib.Tactic.LinearCombination
import Mathlib.Algebra.CharZero.Defs

namespace Libvna.Conv
variable {K : Type} [Field K] [CharZero K]

/-- the manual's inverse formulas: v = (Z* a + Z b)/(K Re Z), i = (a − b)/(K Re Z), with
    K = 1/k and Re Z = (z + zc)/2 -/
theorem linked_inv {z zc k v i a b : K}
    (h : Linked z zc k v i a b) (hk : k ≠ 0) (hz : z + zc ≠ 0) :
    v = 2 * k * (zc * a + z * b) / (z + zc) ∧ i = 2 * k * (a - b) / (z + zc) := by
  obtain ⟨rfl, rfl⟩ := h
  constructor <;> field_simp <;> ring

/-- conversely the inverse formulas give back the forward ones: (v,i) ↔ (a,b) is a bijection -/
theorem linked_of_inv {z zc k v i a b : K} (hk : k ≠ 0) (hz : z + zc ≠ 0)
    (hv : v = 2 * k * (zc * a + z * b) / (z + zc)) (hi : i = 2 * k * (a - b) / (z + zc)) :
    Linked z zc k v i a b := by
  subst hv hi
  constructor <;> field_simp <;> ring

/-- incident wave zero ⇔ the port is terminated in its reference impedance -/
theorem a_zero_iff_terminated {z zc k v i a b : K} (h : Linked z zc k v i a b) (hk : k ≠ 0) :
    a = 0 ↔ v = -(z * i) := by
  obtain ⟨rfl, rfl⟩ := h
  constructor
  · intro h0
    have h2 : (2 * k) ≠ 0 := mul_ne_zero (OfNat.ofNat_ne_zero 2) hk
    have := (div_eq_zero_iff.mp h0).resolve_right h2
    linear_combination this
  · intro hv
    rw [hv]; simp

/-- input impedance from S-parameters, division-free: with a₂ = 0,
    v₁ (1 − s₁₁) = (s₁₁ z₁ + z₁*) i₁ -/
theorem zi1_of_S {r : Ref K} {m : M2 K} {s : St K} (hr : r.Ok) (hl : s.Linked r)
    (h : RelS m s) (ha : s.a2 = 0) :
    s.v1 * (1 - m.m11) = (m.m11 * r.z1 + r.z1c) * s.i1 := by
  obtain ⟨z1, z1c, k1, z2, z2c, k2⟩ := r
  obtain ⟨m11, m12, m21, m22⟩ := m
  obtain ⟨v1, i1, a1, b1, v2, i2, a2, b2⟩ := s
  simp only [Ref.Ok, St.Linked] at hr hl
  simp only [RelS] at h
  obtain ⟨hz1, hz2, hk1, hk2⟩ := hr
  obtain ⟨hl1, hl2⟩ := hl
  obtain ⟨rfl, rfl⟩ := linked_inv hl1 hk1 hz1
  obtain ⟨rfl, rfl⟩ := linked_inv hl2 hk2 hz2
  simp only at ha
  subst ha
  obtain ⟨rfl, rfl⟩ := h
  simp only
  field_simp
  ring

theorem zi2_of_S {r : Ref K} {m : M2 K} {s : St K} (hr : r.Ok) (hl : s.Linked r)
    (h : RelS m s) (ha : s.a1 = 0) :
    s.v2 * (1 - m.m22) = (m.m22 * r.z2 + r.z2c) * s.i2 := by
  obtain ⟨z1, z1c, k1, z2, z2c, k2⟩ := r
  obtain ⟨m11, m12, m21, m22⟩ := m
  obtain ⟨v1, i1, a1, b1, v2, i2, a2, b2⟩ := s
  simp only [Ref.Ok, St.Linked] at hr hl
  simp only [RelS] at h
  obtain ⟨hz1, hz2, hk1, hk2⟩ := hr
  obtain ⟨hl1, hl2⟩ := hl
  obtain ⟨rfl, rfl⟩ := linked_inv hl1 hk1 hz1
  obtain ⟨rfl, rfl⟩ := linked_inv hl2 hk2 hz2
  simp only at ha
  subst ha
  obtain ⟨rfl, rfl⟩ := h
  simp only
  field_simp
  ring

end Libvna.Conv
