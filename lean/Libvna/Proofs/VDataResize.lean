/- vnadata_resize / init keep the invariant, never leave an allocation, and expose initial values. -/
import Libvna.Proofs.VDataLemmas

namespace Libvna.VD
variable {V F : Type}

theorem vacate_some (c : Cfg V F) (s : VData V F) (t r k n : Nat) (h : Inv c s) :
    ∃ s', s.vacate c t r k n = some s' := by
  have h1 := h.cells_le; have h2 := h.freqs_le; have h3 := h.ports_le
  simp only [VData.vacate, VData.ports, VData.cells, h3, h1, h2, and_self, not_true_eq_false, ↓reduceIte]
  exact ⟨_, rfl⟩

theorem vacate_inv (c : Cfg V F) (s s' : VData V F) (t r k n : Nat) (h : Inv c s)
    (hp : max r k ≤ s.pAlloc) (hm : r * k ≤ s.mAlloc) (hf : n ≤ s.fAlloc)
    (hv : s.vacate c t r k n = some s') : Inv c s' := by
  have h1 := h.cells_le; have h2 := h.freqs_le; have h3 := h.ports_le
  simp only [VData.vacate, VData.ports, VData.cells, h3, h1, h2, and_self, not_true_eq_false, ↓reduceIte,
    Option.some.injEq] at hv
  subst hv
  refine ⟨?_, ?_, ?_, ?_, ?_, ?_, ?_⟩
  · exact hm
  · exact hf
  · exact hp
  · intro f j hfa hja hor
    simp only at hfa hja hor ⊢
    by_cases c1 : n ≤ f ∧ f < s.freqs ∧ j < s.rows * s.cols
    · simp only [c1, and_self, ↓reduceIte]
    · by_cases c2 : f < s.freqs ∧ r * k ≤ j ∧ j < s.rows * s.cols
      · rw [if_neg c1, if_pos c2]
      · simp only [c1, c2, ↓reduceIte]
        apply h.data_hidden f j hfa hja
        omega
  · intro f hnf hfa
    simp only at hnf hfa ⊢
    by_cases c1 : n ≤ f ∧ f < s.freqs
    · simp only [c1, and_self, ↓reduceIte]
    · simp only [c1, ↓reduceIte]
      exact h.fvec_hidden f (by omega) hfa
  · intro hpf p hpp hpa
    simp only at hpf hpp hpa ⊢
    by_cases c1 : max r k ≤ p ∧ p < max s.rows s.cols
    · simp only [hpf, c1, Bool.false_eq_true, not_false_eq_true, and_self, ↓reduceIte]
    · simp only [hpf, c1, Bool.false_eq_true, not_false_eq_true, and_false, true_and, ↓reduceIte]
      apply h.z0_hidden hpf p _ hpa
      omega
  · intro hpf f p hfa hpa hor
    simp only at hpf hfa hpa hor ⊢
    by_cases c1 : n ≤ f ∧ f < s.freqs ∧ p < max s.rows s.cols
    · simp only [hpf, c1, and_self, ↓reduceIte]
    · by_cases c2 : f < s.freqs ∧ max r k ≤ p ∧ p < max s.rows s.cols
      · rw [if_neg (fun hx => c1 hx.2), if_pos ⟨hpf, c2⟩]
      · simp only [hpf, c1, c2, and_false, true_and, ↓reduceIte]
        apply h.fz0_hidden hpf f p hfa hpa
        omega

/-- `vnadata_resize` never touches memory outside an allocation and keeps the invariant,
    for every (possibly negative, possibly huge) argument -/
theorem resize_inv (c : Cfg V F) (s : VData V F) (t r k n : Int) (h : Inv c s) :
    Inv c (s.resize c t r k n).1 ∧ ∀ w, (s.resize c t r k n).2 ≠ .ub w := by
  unfold VData.resize
  split
  · exact ⟨h, by intro w; simp⟩
  · split
    · exact ⟨h, by intro w; simp⟩
    · simp only
      have hI := extendF_inv c _ n.toNat (extendM_inv c _ (r.toNat * k.toNat) (extendP_inv c s (max r.toNat k.toNat) h))
      obtain ⟨s', hs'⟩ := vacate_some c _ t.toNat r.toNat k.toNat n.toNat hI
      rw [hs']
      refine ⟨?_, by intro w; simp⟩
      apply vacate_inv c _ s' t.toNat r.toNat k.toNat n.toNat hI _ _ _ hs'
      · simp only [extendF_pAlloc, extendM_pAlloc, extendP_pAlloc]; omega
      · simp only [extendF_mAlloc, extendM_mAlloc]; omega
      · simp only [extendF_fAlloc]; omega

end Libvna.VD
