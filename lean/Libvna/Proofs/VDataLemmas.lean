/- Invariant of the concrete vnadata model and its preservation (core Lean only: simp, omega). -/
import Libvna.Model.VData

namespace Libvna.VD
variable {V F : Type}

/-- representation invariant of `vnadata_t` -/
structure Inv (c : Cfg V F) (s : VData V F) : Prop where
  cells_le : s.rows * s.cols ≤ s.mAlloc
  freqs_le : s.freqs ≤ s.fAlloc
  ports_le : max s.rows s.cols ≤ s.pAlloc
  /-- allocated cells beyond the logical size hold 0 -/
  data_hidden : ∀ f k, f < s.fAlloc → k < s.mAlloc → (s.freqs ≤ f ∨ s.rows * s.cols ≤ k) → s.data f k = c.zero
  /-- allocated frequencies beyond the logical size hold 0 -/
  fvec_hidden : ∀ f, s.freqs ≤ f → f < s.fAlloc → s.fvec f = c.fzero
  /-- ordinary impedances beyond the port count hold 50 ohm -/
  z0_hidden : s.perF = false → ∀ p, max s.rows s.cols ≤ p → p < s.pAlloc → s.z0 p = c.z50
  /-- per-frequency impedances beyond the logical sizes hold 50 ohm -/
  fz0_hidden : s.perF = true → ∀ f p, f < s.fAlloc → p < s.pAlloc →
      (s.freqs ≤ f ∨ max s.rows s.cols ≤ p) → s.fz0 f p = c.z50

theorem alloc_inv (c : Cfg V F) (jv : V) (jf : F) : Inv c (VData.alloc jv jf) := by
  constructor <;> simp [VData.alloc]

theorem idx_lt {r k rows cols : Nat} (hr : r < rows) (hk : k < cols) : r * cols + k < rows * cols := by
  calc r * cols + k < r * cols + cols := by omega
    _ = (r + 1) * cols := by rw [Nat.succ_mul]
    _ ≤ rows * cols := Nat.mul_le_mul_right cols hr

/- extend_p / extend_m / extend_f keep the invariant and never shrink -/

theorem extendP_inv (c : Cfg V F) (s : VData V F) (n : Nat) (h : Inv c s) : Inv c (s.extendP c n) := by
  unfold VData.extendP
  split
  · split
    · next hn hp =>
      refine ⟨h.cells_le, h.freqs_le, ?_, h.data_hidden, h.fvec_hidden, ?_, ?_⟩
      · have := h.ports_le; simp only; omega
      · intro hpf; simp [hp] at hpf
      · intro _ f p hf hpn hor
        simp only at hf hpn hor ⊢
        split
        · rfl
        · next hc =>
          have hp' : p < s.pAlloc := by omega
          exact h.fz0_hidden hp f p hf hp' hor
    · next hn hp =>
      have hp : s.perF = false := by simpa using hp
      refine ⟨h.cells_le, h.freqs_le, ?_, h.data_hidden, h.fvec_hidden, ?_, ?_⟩
      · have := h.ports_le; simp only; omega
      · intro _ p hmp hpn
        simp only at hmp hpn ⊢
        split
        · rfl
        · exact h.z0_hidden hp p hmp (by omega)
      · intro hpf; simp [hp] at hpf
  · exact h

theorem extendP_pAlloc (c : Cfg V F) (s : VData V F) (n : Nat) :
    (s.extendP c n).pAlloc = max s.pAlloc n := by
  unfold VData.extendP; split
  · split <;> simp only <;> omega
  · omega

theorem extendM_inv (c : Cfg V F) (s : VData V F) (n : Nat) (h : Inv c s) : Inv c (s.extendM c n) := by
  unfold VData.extendM
  split
  · next hn =>
    refine ⟨?_, h.freqs_le, h.ports_le, ?_, h.fvec_hidden, h.z0_hidden, h.fz0_hidden⟩
    · have := h.cells_le; simp only; omega
    · intro f k hf hk hor
      simp only at hf hk hor ⊢
      split
      · rfl
      · exact h.data_hidden f k hf (by omega) hor
  · exact h

theorem extendM_mAlloc (c : Cfg V F) (s : VData V F) (n : Nat) :
    (s.extendM c n).mAlloc = max s.mAlloc n := by
  unfold VData.extendM; split <;> (try simp only) <;> omega

theorem extendF_inv (c : Cfg V F) (s : VData V F) (n : Nat) (h : Inv c s) : Inv c (s.extendF c n) := by
  unfold VData.extendF
  split
  · next hn =>
    refine ⟨h.cells_le, ?_, h.ports_le, ?_, ?_, h.z0_hidden, ?_⟩
    · have := h.freqs_le; simp only; omega
    · intro f k hf hk hor
      simp only at hf hk hor ⊢
      split
      · rfl
      · exact h.data_hidden f k (by omega) hk hor
    · intro f hf hfn
      simp only at hf hfn ⊢
      split
      · rfl
      · exact h.fvec_hidden f hf (by omega)
    · intro hp f p hf hpn hor
      simp only at hp hf hpn hor ⊢
      by_cases hc : s.fAlloc ≤ f
      · rw [if_pos ⟨hp, hc, hf, hpn⟩]
      · rw [if_neg (fun hx => hc hx.2.1)]
        exact h.fz0_hidden hp f p (by omega) hpn hor
  · exact h

theorem extendF_fAlloc (c : Cfg V F) (s : VData V F) (n : Nat) :
    (s.extendF c n).fAlloc = max s.fAlloc n := by
  unfold VData.extendF; split <;> (try simp only) <;> omega

/- the extensions leave every logical field and the other allocations alone -/
@[simp] theorem extendP_rows (c : Cfg V F) (s : VData V F) (n) : (s.extendP c n).rows = s.rows := by
  unfold VData.extendP; repeat' split
  all_goals rfl
@[simp] theorem extendP_cols (c : Cfg V F) (s : VData V F) (n) : (s.extendP c n).cols = s.cols := by
  unfold VData.extendP; repeat' split
  all_goals rfl
@[simp] theorem extendP_freqs (c : Cfg V F) (s : VData V F) (n) : (s.extendP c n).freqs = s.freqs := by
  unfold VData.extendP; repeat' split
  all_goals rfl
@[simp] theorem extendP_perF (c : Cfg V F) (s : VData V F) (n) : (s.extendP c n).perF = s.perF := by
  unfold VData.extendP; repeat' split
  all_goals rfl
@[simp] theorem extendP_mAlloc (c : Cfg V F) (s : VData V F) (n) : (s.extendP c n).mAlloc = s.mAlloc := by
  unfold VData.extendP; repeat' split
  all_goals rfl
@[simp] theorem extendP_fAlloc (c : Cfg V F) (s : VData V F) (n) : (s.extendP c n).fAlloc = s.fAlloc := by
  unfold VData.extendP; repeat' split
  all_goals rfl
@[simp] theorem extendM_rows (c : Cfg V F) (s : VData V F) (n) : (s.extendM c n).rows = s.rows := by
  unfold VData.extendM; split <;> rfl
@[simp] theorem extendM_cols (c : Cfg V F) (s : VData V F) (n) : (s.extendM c n).cols = s.cols := by
  unfold VData.extendM; split <;> rfl
@[simp] theorem extendM_freqs (c : Cfg V F) (s : VData V F) (n) : (s.extendM c n).freqs = s.freqs := by
  unfold VData.extendM; split <;> rfl
@[simp] theorem extendM_perF (c : Cfg V F) (s : VData V F) (n) : (s.extendM c n).perF = s.perF := by
  unfold VData.extendM; split <;> rfl
@[simp] theorem extendM_pAlloc (c : Cfg V F) (s : VData V F) (n) : (s.extendM c n).pAlloc = s.pAlloc := by
  unfold VData.extendM; split <;> rfl
@[simp] theorem extendM_fAlloc (c : Cfg V F) (s : VData V F) (n) : (s.extendM c n).fAlloc = s.fAlloc := by
  unfold VData.extendM; split <;> rfl
@[simp] theorem extendF_rows (c : Cfg V F) (s : VData V F) (n) : (s.extendF c n).rows = s.rows := by
  unfold VData.extendF; split <;> rfl
@[simp] theorem extendF_cols (c : Cfg V F) (s : VData V F) (n) : (s.extendF c n).cols = s.cols := by
  unfold VData.extendF; split <;> rfl
@[simp] theorem extendF_freqs (c : Cfg V F) (s : VData V F) (n) : (s.extendF c n).freqs = s.freqs := by
  unfold VData.extendF; split <;> rfl
@[simp] theorem extendF_perF (c : Cfg V F) (s : VData V F) (n) : (s.extendF c n).perF = s.perF := by
  unfold VData.extendF; split <;> rfl
@[simp] theorem extendF_pAlloc (c : Cfg V F) (s : VData V F) (n) : (s.extendF c n).pAlloc = s.pAlloc := by
  unfold VData.extendF; split <;> rfl
@[simp] theorem extendF_mAlloc (c : Cfg V F) (s : VData V F) (n) : (s.extendF c n).mAlloc = s.mAlloc := by
  unfold VData.extendF; split <;> rfl

/- pointwise content of the extended object -/
theorem extendP_data (c : Cfg V F) (s : VData V F) (n) : (s.extendP c n).data = s.data := by
  unfold VData.extendP; repeat' split
  all_goals rfl
theorem extendP_fvec (c : Cfg V F) (s : VData V F) (n) : (s.extendP c n).fvec = s.fvec := by
  unfold VData.extendP; repeat' split
  all_goals rfl
theorem extendP_z0 (c : Cfg V F) (s : VData V F) (n p) (hp : p < s.pAlloc) : (s.extendP c n).z0 p = s.z0 p := by
  unfold VData.extendP; repeat' split
  all_goals simp only
  · have : ¬ (s.pAlloc ≤ p ∧ p < n) := by omega
    simp only [this, ↓reduceIte]
theorem extendP_fz0 (c : Cfg V F) (s : VData V F) (n f p) (hp : p < s.pAlloc) : (s.extendP c n).fz0 f p = s.fz0 f p := by
  unfold VData.extendP; repeat' split
  all_goals simp only
  · have : ¬ (f < s.fAlloc ∧ s.pAlloc ≤ p ∧ p < n) := by omega
    simp only [this, ↓reduceIte]
theorem extendM_data (c : Cfg V F) (s : VData V F) (n f j) (hj : j < s.mAlloc) : (s.extendM c n).data f j = s.data f j := by
  unfold VData.extendM; split
  · simp only
    have : ¬ (f < s.fAlloc ∧ s.mAlloc ≤ j ∧ j < n) := by omega
    simp only [this, ↓reduceIte]
  · rfl
theorem extendM_fvec (c : Cfg V F) (s : VData V F) (n) : (s.extendM c n).fvec = s.fvec := by
  unfold VData.extendM; split <;> rfl
theorem extendM_z0 (c : Cfg V F) (s : VData V F) (n) : (s.extendM c n).z0 = s.z0 := by
  unfold VData.extendM; split <;> rfl
theorem extendM_fz0 (c : Cfg V F) (s : VData V F) (n) : (s.extendM c n).fz0 = s.fz0 := by
  unfold VData.extendM; split <;> rfl
theorem extendF_data (c : Cfg V F) (s : VData V F) (n f j) (hf : f < s.fAlloc) : (s.extendF c n).data f j = s.data f j := by
  unfold VData.extendF; split
  · simp only
    have : ¬ (s.fAlloc ≤ f ∧ f < n ∧ j < s.mAlloc) := by omega
    simp only [this, ↓reduceIte]
  · rfl
theorem extendF_fvec (c : Cfg V F) (s : VData V F) (n f) (hf : f < s.fAlloc) : (s.extendF c n).fvec f = s.fvec f := by
  unfold VData.extendF; split
  · simp only
    have : ¬ (s.fAlloc ≤ f ∧ f < n) := by omega
    simp only [this, ↓reduceIte]
  · rfl
theorem extendF_z0 (c : Cfg V F) (s : VData V F) (n) : (s.extendF c n).z0 = s.z0 := by
  unfold VData.extendF; split <;> rfl
theorem extendF_fz0 (c : Cfg V F) (s : VData V F) (n f p) (hf : f < s.fAlloc) : (s.extendF c n).fz0 f p = s.fz0 f p := by
  unfold VData.extendF; split
  · simp only
    have : ¬ (s.perF = true ∧ s.fAlloc ≤ f ∧ f < n ∧ p < s.pAlloc) := by omega
    simp only [this, ↓reduceIte]
  · rfl

end Libvna.VD
