/-
Specification of the nine two-port parameter types of vnaconv(3).

Written by hand from the manual page, independent of the C source.  A port
state is (v, i, a, b): voltage, current into the port, incident and reflected
root-power waves.  The manual links them by

    a = 1/2 K (v + Z i)        b = 1/2 K (v - Z* i)       K = 1/sqrt|Re Z|

Conjugation and sqrt|.| are not field operations, so the reference impedance of
a port is carried as (z, zc, k): z, "its conjugate" and k = sqrt|Re z| = 1/K.
The theorems quantify over *all* zc and k subject to the side conditions named
in each statement (k ≠ 0, z + zc ≠ 0), hence in particular over the real ones.
-/
import Mathlib.Algebra.Field.Defs
import Libvna.Model.Basic

namespace Libvna.Conv

variable {K : Type} [Field K]

/-- a, b are the waves of the port state (v, i) for reference impedance z
    (conjugate zc, k = sqrt|Re z|).  Manual: a = ½K(v + Z i), b = ½K(v − Z* i), K = 1/k. -/
def Linked (z zc k v i a b : K) : Prop :=
  a = (v + z * i) / (2 * k) ∧ b = (v - zc * i) / (2 * k)


/-- the state of a two-port: voltages, currents, waves at both ports -/
structure St (K : Type) where
  v1 : K
  i1 : K
  a1 : K
  b1 : K
  v2 : K
  i2 : K
  a2 : K
  b2 : K

/-- reference impedances of both ports with conjugates and k = sqrt|Re z| -/
structure Ref (K : Type) where
  z1 : K
  z1c : K
  k1 : K
  z2 : K
  z2c : K
  k2 : K

def St.Linked (r : Ref K) (s : St K) : Prop :=
  Conv.Linked r.z1 r.z1c r.k1 s.v1 s.i1 s.a1 s.b1 ∧
  Conv.Linked r.z2 r.z2c r.k2 s.v2 s.i2 s.a2 s.b2

/-- side conditions on reference impedances: Re z ≠ 0 (z + z* ≠ 0), k ≠ 0 -/
def Ref.Ok (r : Ref K) : Prop :=
  r.z1 + r.z1c ≠ 0 ∧ r.z2 + r.z2c ≠ 0 ∧ r.k1 ≠ 0 ∧ r.k2 ≠ 0

/- The defining relations, as printed in vnaconv(3). -/
def RelS (m : M2 K) (s : St K) : Prop :=
  s.b1 = m.m11 * s.a1 + m.m12 * s.a2 ∧ s.b2 = m.m21 * s.a1 + m.m22 * s.a2
def RelT (m : M2 K) (s : St K) : Prop :=
  s.b1 = m.m11 * s.a2 + m.m12 * s.b2 ∧ s.a1 = m.m21 * s.a2 + m.m22 * s.b2
def RelU (m : M2 K) (s : St K) : Prop :=
  s.a2 = m.m11 * s.b1 + m.m12 * s.a1 ∧ s.b2 = m.m21 * s.b1 + m.m22 * s.a1
def RelZ (m : M2 K) (s : St K) : Prop :=
  s.v1 = m.m11 * s.i1 + m.m12 * s.i2 ∧ s.v2 = m.m21 * s.i1 + m.m22 * s.i2
def RelY (m : M2 K) (s : St K) : Prop :=
  s.i1 = m.m11 * s.v1 + m.m12 * s.v2 ∧ s.i2 = m.m21 * s.v1 + m.m22 * s.v2
def RelH (m : M2 K) (s : St K) : Prop :=
  s.v1 = m.m11 * s.i1 + m.m12 * s.v2 ∧ s.i2 = m.m21 * s.i1 + m.m22 * s.v2
def RelG (m : M2 K) (s : St K) : Prop :=
  s.i1 = m.m11 * s.v1 + m.m12 * s.i2 ∧ s.v2 = m.m21 * s.v1 + m.m22 * s.i2
def RelA (m : M2 K) (s : St K) : Prop :=
  s.v1 = m.m11 * s.v2 + m.m12 * (-s.i2) ∧ s.i1 = m.m21 * s.v2 + m.m22 * (-s.i2)
def RelB (m : M2 K) (s : St K) : Prop :=
  s.v2 = m.m11 * s.v1 + m.m12 * s.i1 ∧ -s.i2 = m.m21 * s.v1 + m.m22 * s.i1

end Libvna.Conv
