/- driver glue for the vnadata model: line protocol `vd <slot> <op> <args…>` -/
import Libvna.Model.VDataStep
import Libvna.Model.Scalar
import Libvna.Model.VConvert
import Libvna.Model.ConvN
import Libvna.Gen.Conv2Table
open Libvna Libvna.VD

namespace Libvna.Drv

abbrev VV := String   -- complex value: "re im" as two hex words
abbrev FF := String   -- frequency: one hex word

def zeroW := "0000000000000000"
def cfg : Cfg VV FF :=
  { zero := zeroW ++ " " ++ zeroW, z50 := "4049000000000000 " ++ zeroW, fzero := zeroW,
    fneg := fun s => match floatOfHex? s with | some x => x < 0.0 | none => false }

def vToCF (v : VV) : CF :=
  match v.splitOn " " with
  | [a, b] => match floatOfHex? a, floatOfHex? b with
    | some x, some y => ⟨x, y⟩
    | _, _ => ⟨0, 0⟩
  | _ => ⟨0, 0⟩

/-- the numeric conversion functions: generated two-port text and the n-port models, on IEEE doubles -/
def convFn : ConvFn VV := fun fn cells z0 n =>
  let cs := cells.map vToCF
  let zs := z0.map vToCF
  let junk : CF := ⟨12345.0, -54321.0⟩
  let two : Option (List CF) :=
    match cs, zs with
    | [a, b, c', d], [z1, z2] => Libvna.Gen.conv2Call fn false ⟨a, b, c', d⟩ ⟨z1, z2⟩ ⟨junk, junk, junk, junk⟩ ⟨junk, junk⟩
    | _, _ => none
  let r : List CF :=
    match two with
    | some r => r
    | none => match Libvna.ConvN.call CF.abs CF.conj CF.sqa fn cs.toArray zs.toArray n with
      | some r => r.toList
      | none => []
  r.map cfToHex

abbrev VSlots := List (Option (VData VV FF))

def errName : Err → String
  | .EINVAL => "EINVAL" | .ENOMEM => "ENOMEM" | .EDOM => "EDOM" | .EBADMSG => "EBADMSG"
  | .ENOENT => "ENOENT" | .ENOPROTOOPT => "ENOPROTOOPT" | .OTHER => "other"

def resLine {α : Type} (r : Res α) (pay : α → String) : String :=
  match r with
  | .ok a => "ok cb=0/0" ++ pay a
  | .fail e => "fail " ++ errName e ++ " cb=1/0"
  | .ub w => "UB " ++ w

def sp (xs : List String) : String := xs.foldl (fun acc x => acc ++ " " ++ x) ""

def pairs : List String → Option (List VV)
  | [] => some []
  | [_] => none
  | a :: b :: r => (pairs r).map fun t => (a ++ " " ++ b) :: t

def digest (s : VData VV FF) : String :=
  let fs := (List.range s.freqs).map s.fvec
  let ds := (List.range s.freqs).flatMap fun f => (List.range (s.rows * s.cols)).map fun k => s.data f k
  let zs := if s.perF then (List.range s.freqs).flatMap fun f => (List.range s.ports).map fun p => s.fz0 f p
            else (List.range s.ports).map s.z0
  s!"ok type={s.type} rows={s.rows} cols={s.cols} freqs={s.freqs} fz0={if s.perF then 1 else 0} ft={s.filetype} fp={s.fprec} dp={s.dprec} F{sp fs} D{sp ds} Z{sp zs}"

def setSlot (ss : VSlots) (i : Nat) (v : Option (VData VV FF)) : VSlots := ss.set i v

def stepVd (ss : VSlots) (args : List String) : VSlots × String :=
  match args with
  | slot :: op :: a =>
    match slot.toNat? with
    | none => (ss, "bad-op")
    | some i =>
      if i ≥ 8 then (ss, "bad-op") else
      let cur := (ss[i]?).join
      if op == "alloc" then
        match cur with
        | some _ => (ss, "bad-op")
        | none => (setSlot ss i (some (VData.alloc "JUNK JUNK" "JUNK")), "ok cb=0/0")
      else
      match cur with
      | none => (ss, "bad-op")
      | some s =>
        let upd (p : VData VV FF × Res Unit) : VSlots × String := (setSlot ss i (some p.1), resLine p.2 fun _ => "")
        let ints := a.map String.toInt?
        match op, a, ints with
        | "free", [], _ => (setSlot ss i none, "ok cb=0/0")
        | "init", _, [some t, some r, some k, some n] => upd (s.init cfg t r k n)
        | "resize", _, [some t, some r, some k, some n] => upd (s.resize cfg t r k n)
        | "set_type", _, [some t] => upd (s.setType t)
        | "add_frequency", [x], _ => upd (s.addFrequency cfg x)
        | "get_frequency", _, [some j] => (ss, resLine (s.getFrequency j) fun x => " " ++ x)
        | "get_fmin", [], _ => (ss, resLine s.getFmin fun x => " " ++ x)
        | "get_fmax", [], _ => (ss, resLine s.getFmax fun x => " " ++ x)
        | "set_frequency", [j, x], _ =>
          match j.toInt? with | some j => upd (s.setFrequency j x) | none => (ss, "bad-args")
        | "set_frequency_vector", xs, _ => if xs.length == s.freqs then upd (s.setFrequencyVector xs) else (ss, "bad-op")
        | "get_cell", _, [some f, some r, some k] => (ss, resLine (s.getCell f r k) fun x => " " ++ x)
        | "set_cell", [f, r, k, re, im], _ =>
          match f.toInt?, r.toInt?, k.toInt? with
          | some f, some r, some k => upd (s.setCell f r k (re ++ " " ++ im))
          | _, _, _ => (ss, "bad-args")
        | "get_matrix", _, [some f] => (ss, resLine (s.getMatrix f) sp)
        | "set_matrix", f :: vals, _ =>
          match f.toInt?, pairs vals with
          | some f, some vs => if vs.length == s.cells then upd (s.setMatrix f vs) else (ss, "bad-op")
          | _, _ => (ss, "bad-args")
        | "get_to_vector", _, [some r, some k] => (ss, resLine (s.getToVector r k) sp)
        | "set_from_vector", r :: k :: vals, _ =>
          match r.toInt?, k.toInt?, pairs vals with
          | some r, some k, some vs => if vs.length == s.freqs then upd (s.setFromVector r k vs) else (ss, "bad-op")
          | _, _, _ => (ss, "bad-args")
        | "get_z0", _, [some p] => (ss, resLine (s.getZ0 p) fun x => " " ++ x)
        | "set_z0", [p, re, im], _ =>
          match p.toInt? with | some p => upd (s.setZ0 cfg p (re ++ " " ++ im)) | none => (ss, "bad-args")
        | "set_all_z0", [re, im], _ => upd (s.setAllZ0 cfg (re ++ " " ++ im))
        | "get_z0_vector", [], _ => (ss, resLine s.getZ0Vector sp)
        | "set_z0_vector", vals, _ =>
          match pairs vals with
          | some vs => if vs.length == s.ports then upd (s.setZ0Vector cfg vs) else (ss, "bad-op")
          | none => (ss, "bad-args")
        | "set_z0_vector_own", _, [some g] =>     -- the object's own row g handed to the setter
          if ¬ inRange g s.freqs then (ss, "bad-op") else
          match s.getFz0Vector g with
          | .ok vs => upd (s.setZ0Vector cfg vs)
          | _ => (ss, "bad-op")
        | "set_fz0_vector_own", _, [some f, some g] =>
          if g < -1 ∨ g ≥ s.freqs ∨ (g = -1 ∧ s.perF) then (ss, "bad-op") else
          match (if g = -1 then s.getZ0Vector else s.getFz0Vector g) with
          | .ok vs => upd (s.setFz0Vector cfg f vs)
          | _ => (ss, "bad-op")
        | "has_fz0", [], _ => (ss, "ok cb=0/0 " ++ (if s.perF then "1" else "0"))
        | "get_fz0", _, [some f, some p] => (ss, resLine (s.getFz0 f p) fun x => " " ++ x)
        | "set_fz0", [f, p, re, im], _ =>
          match f.toInt?, p.toInt? with
          | some f, some p => upd (s.setFz0 cfg f p (re ++ " " ++ im))
          | _, _ => (ss, "bad-args")
        | "get_fz0_vector", _, [some f] => (ss, resLine (s.getFz0Vector f) sp)
        | "set_fz0_vector", f :: vals, _ =>
          match f.toInt?, pairs vals with
          | some f, some vs => if vs.length == s.ports then upd (s.setFz0Vector cfg f vs) else (ss, "bad-op")
          | _, _ => (ss, "bad-args")
        | "set_filetype", _, [some x] =>
          if 0 ≤ x ∧ x ≤ 3 then (setSlot ss i (some { s with filetype := x.toNat }), "ok cb=0/0") else (ss, "fail EINVAL cb=1/0")
        | "set_fprecision", _, [some x] =>
          if x ≥ 1 ∧ x ≤ 1000 then (setSlot ss i (some { s with fprec := x.toNat }), "ok cb=0/0") else (ss, "fail EINVAL cb=1/0")
        | "set_dprecision", _, [some x] =>
          if x ≥ 1 ∧ x ≤ 1000 then (setSlot ss i (some { s with dprec := x.toNat }), "ok cb=0/0") else (ss, "fail EINVAL cb=1/0")
        | "convert", _, [some dst, some t] =>
          if dst < 0 ∨ dst ≥ 8 then (ss, "bad-op") else
          if dst.toNat = i then upd (s.convertInPlace cfg convFn t)
          else match (ss[dst.toNat]?).join with
            | none => (ss, "bad-op")
            | some o =>
              let p := s.convertInto cfg convFn o t
              (setSlot ss dst.toNat (some p.1), resLine p.2 fun _ => "")
        | "digest", [], _ => (ss, digest s)
        | _, _, _ => (ss, "bad-op")
  | _ => (ss, "bad-op")

end Libvna.Drv
