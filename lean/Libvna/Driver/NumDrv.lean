/- driver glue for rfi / spline on IEEE doubles -/
import Libvna.Model.Interp
import Libvna.Model.Scalar
open Libvna

namespace Libvna.Drv

def EPS : Float := 1.0e-25

/-- `rfi_window`: the Bulirsch–Stoer recurrence on one window (base = first point of the window, cur0 = index of the point nearest x
    within it); the Bool says that an intermediate denominator (nearly) vanished -/
def rfiWindow (xs : Array Float) (ys : Array CF) (base m : Nat) (cur0 : Int) (x : Float) : CF × Bool := Id.run do
  let mut cur : Int := cur0
  -- samples that are zero / negligible against the others: interpolate y + shift (vnacal_rfi.c)
  let mut ymax : Float := 0.0
  let mut ymin : Float := 1.0 / 0.0
  for i in [0:m] do
    let a := CF.abs ys[base + i]!
    if a > ymax then ymax := a
    if a < ymin then ymin := a
  let shift : Float := if ymin < 1.0e-6 * ymax then 2.0 * ymax else 0.0
  let addRe (z : CF) (r : Float) : CF := ⟨z.re + r, z.im⟩
  let mut c : Array CF := (Array.range m).map fun i => addRe ys[base + i]! shift
  let mut d : Array CF := (Array.range m).map fun i => addRe (addRe ys[base + i]! shift) EPS
  let mut y := addRe ys[base + cur.toNat]! shift
  cur := cur - 1
  let mut stop := false
  for i in [0:m - 1] do
    if !stop then
      for j in [0:m - i - 1] do
        if !stop then
          let cd := c[j + 1]! - d[j]!
          let a : CF := ⟨x - xs[base + j]!, 0⟩
          let b : CF := ⟨x - xs[base + i + j + 1]!, 0⟩
          let t1 := a * d[j]!
          let t2 := b * c[j + 1]!
          let den := t1 - t2
          if CF.abs den < 10.0 * EPS || CF.abs den < 1.0e-6 * (CF.abs t1 + CF.abs t2) then
            stop := true
          else
            c := c.set! j (cd * t1 / den)
            d := d.set! j (cd * t2 / den)
      if !stop then
        if 2 * (cur + 1) < ((m - i : Nat) : Int) then
          y := y + c[(cur + 1).toNat]!
        else
          y := y + d[cur.toNat]!
          cur := cur - 1
  return (addRe y (-shift), stop)

/-- the part of `_vnacal_rfi` after the segment has been found: window choice, recurrence, and the mean of the two neighbouring
    evaluations where the recurrence meets a pole of an intermediate interpolant -/
def rfiBody (xs : Array Float) (ys : Array CF) (n m : Nat) (segment : Nat) (x : Float) : CF :=
  let dx1 := Float.abs (x - xs[segment]!)
  let dx2 := Float.abs (x - xs[segment + 1]!)
  let nearest := if dx1 <= dx2 || m < 2 then segment else segment + 1
  let base0 : Int := if m % 2 == 1 then (nearest : Int) - ((m - 1) / 2 : Nat) else (segment : Int) - ((m / 2 - 1 : Nat) : Int)
  let base : Nat := if base0 < 0 then 0 else if base0.toNat + m > n then n - m else base0.toNat
  let cur : Int := (nearest : Int) - base
  let (y, pole) := rfiWindow xs ys base m cur x
  if pole then
    let h := 1.0e-4 * (if dx1 < dx2 then dx1 else dx2)
    let (y1, _) := rfiWindow xs ys base m cur (x - h)
    let (y2, _) := rfiWindow xs ys base m cur (x + h)
    ⟨0.5 * (y1.re + y2.re), 0.5 * (y1.im + y2.im)⟩
  else y

def fltB (a b : Float) : Bool := a < b

def stepRfi (args : List String) : String :=
  match args with
  | ns :: ms :: segs :: xh :: rest =>
    match ns.toNat?, ms.toNat?, segs.toInt?, floatOfHex? xh with
    | some n, some m, some seg, some x =>
      if rest.length != 3 * n ∨ n < 1 then "bad-args" else
      let xs := ((rest.take n).map fun h => (floatOfHex? h).getD 0.0).toArray
      match parseCFs (rest.drop n) with
      | none => "bad-args"
      | some ysl =>
        let ys := ysl.toArray
        let near (a b : Float) : Bool := Float.abs (a - b) <= EPS
        if n < 2 then "ok " ++ cfToHex ys[0]! ++ s!" seg={seg}" else
        let s := Libvna.Interp.findSegment fltB (fun i => xs[i]!) n seg x
        if near x xs[s]! then "ok " ++ cfToHex ys[s]! ++ s!" seg={seg}"
        else if near x xs[s + 1]! then "ok " ++ cfToHex ys[s + 1]! ++ s!" seg={seg}"
        else "ok " ++ cfToHex (rfiBody xs ys n m s x) ++ s!" seg={s}"
    | _, _, _, _ => "bad-args"
  | _ => "bad-args"

def stepSpline (args : List String) : String :=
  match args with
  | ns :: rest =>
    match ns.toNat? with
    | some n =>
      if n < 1 ∨ rest.length < 2 * (n + 1) then "bad-args" else
      let fl := rest.map fun h => (floatOfHex? h).getD 0.0
      let xs := (fl.take (n + 1)).toArray
      let ys := ((fl.drop (n + 1)).take (n + 1)).toArray
      let qs := fl.drop (2 * (n + 1))
      if (List.range n).any fun i => xs[i + 1]! - xs[i]! < 0.0001 then "fail EINVAL" else
      let r := qs.map fun q => Libvna.Interp.splineEval fltB (fun i => xs[i]!) (fun i => ys[i]!) n q
      "ok" ++ r.foldl (fun acc v => acc ++ " " ++ floatToHex v) ""
    | none => "bad-args"
  | _ => "bad-args"

end Libvna.Drv
