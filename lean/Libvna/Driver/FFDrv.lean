/- driver glue for the file-format model: `ff <op> ...` -/
import Libvna.Model.FileFmt
import Libvna.Model.TsOption
import Libvna.Model.NpdScan
import Libvna.Model.IterCtl
import Libvna.Model.Scalar

namespace Libvna.Drv
open Libvna.FF

def mfOf? : String → Option MF
  | "full" => some .full | "upper" => some .upper | "lower" => some .lower | _ => none

def kindOf? : String → Option Kind
  | "ri" => some .ri | "ma" => some .ma | "db" => some .db | "prc" => some .prc | "prl" => some .prl
  | "src" => some .src | "srl" => some .srl | "il" => some .il | "rl" => some .rl | "vswr" => some .vswr | _ => none

def ffPairs (l : List (Nat × Nat)) : String :=
  l.foldl (fun acc p => acc ++ s!" {p.1},{p.2}") ""

/-- decimal number as the Touchstone scanner accepts it after upper-casing: digits [. digits] [E [+|-] digits] -/
def decNum? (s : String) : Option Float :=
  let (mant, ex) := match s.splitOn "E" with
    | [m] => (m, some (0 : Int))
    | [m, e] => (m, (if e.startsWith "+" then (e.drop 1).toString else e).toInt?)
    | _ => ("", none)
  let (ip, fp) := match mant.splitOn "." with
    | [i] => (i, "")
    | [i, f] => (i, f)
    | _ => ("x", "")
  match (ip ++ fp).toNat?, ex with
  | some m, some e =>
    if ip.isEmpty ∧ fp.isEmpty then none else
    let e' : Int := e - fp.length
    some (if e' ≥ 0 then Float.ofScientific (m * 10 ^ e'.toNat) false 0 else Float.ofScientific m true (-e').toNat)
  | _, _ => none

def stepFF (args : List String) : String :=
  match args with
  | ["order", ns, mfs, t21s] =>
    match ns.toNat?, mfOf? mfs with
    | some n, some mf =>
      -- for every value pair, the cells it is stored to
      let t21 := t21s == "1"
      "ok" ++ (order n mf).foldl (fun acc p => acc ++ " |" ++ ffPairs (targets mf t21 p)) ""
    | _, _ => "bad-args"
  | ["save", ns, ts1] =>
    match ns.toNat? with
    | some n => "ok" ++ ffPairs (saveOrder n (ts1 == "1"))
    | none => "bad-args"
  | ["eng", ps, es] =>
    match ps.toNat?, es.toInt? with
    | some p, some e => s!"ok {engBefore p e} {engExp p e}"
    | _, _ => "bad-args"
  | ["fields", ks, zs, ps] =>
    match kindOf? ks, ps.toNat? with
    | some k, some p => let z := zs == "1"; s!"ok {fieldsW k z p} {fieldsL k z p} {quality k z}"
    | _, _ => "bad-args"
  | "option" :: toks =>
    match Libvna.TsOpt.parse decNum? 50.0 (toks.filter (· ≠ "")) with
    | some o => s!"ok {o.mult} {o.param.toLower} {o.fmt} {Libvna.floatToHex o.r}"
    | none => "fail"
  | _ => "bad-op"

def hexNib? (c : Char) : Option Nat :=
  if '0' ≤ c ∧ c ≤ '9' then some (c.toNat - '0'.toNat)
  else if 'a' ≤ c ∧ c ≤ 'f' then some (c.toNat - 'a'.toNat + 10)
  else if 'A' ≤ c ∧ c ≤ 'F' then some (c.toNat - 'A'.toNat + 10) else none

def hexBytes? : List Char → Option (List Nat)
  | [] => some []
  | a :: b :: t => match hexNib? a, hexNib? b, hexBytes? t with
    | some x, some y, some r => some ((16 * x + y) :: r)
    | _, _, _ => none
  | _ => none

def stepNpd (args : List String) : String :=
  match args with
  | ["scan", hx] =>
    let cs := if hx.startsWith "x" then (hx.drop 1).toString.toList else hx.toList
    match hexBytes? cs with
    | some bytes =>
      -- the loader's data line is followed by a newline and the end of the file
      let r := Libvna.Npd.scanLine (bytes ++ [10])
      let k := match Libvna.Npd.kindOf r with | .eof => "eof" | .keyword => "keyword" | .data => "data"
      s!"ok {k} {r.fields.length}"
    | none => "bad-args"
  | ["scan"] =>
    let r := Libvna.Npd.scanLine [10]
    s!"ok eof {r.fields.length}"
  | _ => "bad-op"

/-- `iter <j> <limit>`: the loop control run on an iteration whose (j+1)-th iterate is the first to pass the test -/
def stepIter (args : List String) : String :=
  match args with
  | [js, ls] =>
    match js.toNat?, ls.toNat? with
    | some j, some l =>
      match Libvna.Iter.run (fun n : Nat => n + 1) (fun n => n == j + 1) l 0 with
      | .converged _ k => s!"ok converged {k}"
      | .failed k => s!"ok failed {k}"
    | _, _ => "bad-args"
  | _ => "bad-op"

end Libvna.Drv
