/- driver glue for the handle tables of a vnacal_t: the `cal` operations that do not depend on numerics -/
import Libvna.Model.CalTable
import Libvna.Model.Scalar
import Libvna.Model.ParamHash
import Libvna.Driver.PropDrv
open Libvna Libvna.CT

namespace Libvna.Drv

structure NewRec where
  cal : Nat
  holds : List Nat
  solved : Bool
  nstd : Nat
deriving Repr

structure CalRec where
  ptab : PTab
  names : List (Option String)

structure CalState where
  cals : List (Option CalRec) := List.replicate 4 none
  news : List (Option NewRec) := List.replicate 8 none

def okv (v : Nat) : String := s!"ok {v} cb=0/0"
def failInval : String := "fail EINVAL cb=1/0"

/-- hold a handle for a vnacal_new_t (`_vnacal_new_get_parameter`); correlated parameters pull in their `other` first -/
def useHandle (fuel : Nat) (t : PTab) (holds : List Nat) (h : Int) : Option (PTab × List Nat) :=
  match fuel with
  | 0 => none
  | fuel + 1 =>
    if h ≥ 0 ∧ holds.contains h.toNat then some (t, holds)
    else if ¬ t.valid h then none
    else
      let i := h.toNat
      match t.get? i with
      | none => none
      | some r =>
        let pre : Option (PTab × List Nat) :=
          if r.kind = 4 then
            match r.other with
            | some o => useHandle fuel t holds o
            | none => some (t, holds)
          else some (t, holds)
        match pre with
        | none => none
        | some (t1, h1) => some (t1.hold i, h1 ++ [i])

/-- skip `rows cols <rows*cols*nf complex>` -/
def skipMat (nf : Nat) : List String → Option (List String)
  | r :: c :: rest =>
    match r.toNat?, c.toNat? with
    | some r, some c => let n := r * c * nf * 2; if rest.length < n then none else some (rest.drop n)
    | _, _ => none
  | _ => none

/-- the parameter handles of an `add` line, in the order the library looks them up -/
def addHandles (args : List String) : Option (List Int) :=
  match args with
  | kind :: form :: nfs :: rest =>
    match nfs.toNat? with
    | none => none
    | some nf =>
      let after := if form == "ab" then (skipMat nf rest).bind (skipMat nf) else skipMat nf rest
      match after with
      | none => none
      | some tl =>
        let ints := tl.map String.toInt?
        match kind, ints with
        | "single_reflect", [some s11, some _] => some [s11]
        | "double_reflect", [some s11, some s22, some _, some _] => some [s11, 0, 0, s22]
        | "line", [some a, some b, some c, some d, some _, some _] => some [a, b, c, d]
        | "through", [some _, some _] => some [0, 1, 1, 0]
        | _, _ => none
  | _ => none

def floatOf (s : String) : Float := (floatOfHex? s).getD 0.0

def stepCal (st : CalState) (args : List String) : CalState × String :=
  let unm := (st, "unmodelled")
  match args with
  | "create" :: [c] =>
    match c.toNat? with
    | some c => if c ≥ 4 then (st, "bad-op") else
      match (st.cals[c]?).join with
      | some _ => (st, "bad-op")
      | none => ({ st with cals := st.cals.set c (some { ptab := PTab.setup, names := [] }) }, okv 0)
    | none => (st, "bad-op")
  | "free" :: [c] =>
    match c.toNat? with
    | some c => ({ cals := st.cals.set c none,
                   news := st.news.map fun n => match n with | some r => if r.cal = c then none else some r | none => none }, okv 0)
    | none => (st, "bad-op")
  | "new_alloc" :: c :: n :: _type :: rows :: cols :: freqs :: [] =>
    match c.toNat?, n.toNat?, rows.toInt?, cols.toInt?, freqs.toInt? with
    | some c, some n, some r, some k, some f =>
      match (st.cals[c]?).join with
      | none => (st, "bad-op")
      | some cr =>
        if r < 1 ∨ k < 1 ∨ f < 0 then unm else
        -- the new calibration holds VNACAL_ZERO
        let pt := cr.ptab.hold 0
        ({ cals := st.cals.set c (some { cr with ptab := pt }), news := st.news.set n (some { cal := c, holds := [0], solved := false, nstd := 0 }) }, "unmodelled")
    | _, _, _, _, _ => (st, "bad-op")
  | "new_free" :: [n] =>
    match n.toNat? with
    | some n =>
      match (st.news[n]?).join with
      | none => (st, "bad-op")
      | some nr =>
        match (st.cals[nr.cal]?).join with
        | none => (st, "bad-op")
        | some cr =>
          let pt := nr.holds.foldl (fun t h => PTab.release (t.slots.length + 1) t h) cr.ptab
          ({ cals := st.cals.set nr.cal (some { cr with ptab := pt }), news := st.news.set n none }, okv 0)
    | none => (st, "bad-op")
  | "add" :: n :: rest =>
    match n.toNat? with
    | some n =>
      match (st.news[n]?).join, addHandles rest with
      | some nr, some hs =>
        match (st.cals[nr.cal]?).join with
        | none => (st, "bad-op")
        | some cr =>
          -- look the handles up one by one; the first invalid one refuses the standard, earlier ones stay held
          let rec go (t : PTab) (holds : List Nat) : List Int → PTab × List Nat × Bool
            | [] => (t, holds, true)
            | h :: tl => match useHandle 8 t holds h with
              | none => (t, holds, false)
              | some (t1, h1) => go t1 h1 tl
          let (pt, holds, ok) := go cr.ptab nr.holds hs
          ({ cals := st.cals.set nr.cal (some { cr with ptab := pt }),
             news := st.news.set n (some { nr with holds := holds, nstd := if ok then nr.nstd + 1 else nr.nstd, solved := false }) },
           if ok then "unmodelled" else failInval)
      | _, _ => unm
    | none => (st, "bad-op")
  | "hash_dump" :: [n] =>
    -- the parameter table of the vnacal_new_t: the registrations in order (VNACAL_ZERO first), through Model/ParamHash
    match n.toNat? with
    | some n => match (st.news[n]?).join with
      | some nr =>
        let t := Libvna.PH.build nr.holds
        let body := (List.range t.size).foldl (fun acc i => acc ++ (t.chain i).foldl (fun a e => a ++ " " ++ toString e) "" ++ " ;") ""
        (st, "ok " ++ toString t.size ++ body)
      | none => (st, "bad-op")
    | none => (st, "bad-op")
  | "solve" :: [n] =>
    -- numerics are not modelled here: the generator only asks for solves that succeed
    match n.toNat? with
    | some n => match (st.news[n]?).join with
      | some nr => ({ st with news := st.news.set n (some { nr with solved := true }) }, "unmodelled")
      | none => (st, "bad-op")
    | none => (st, "bad-op")
  | "make_scalar" :: c :: re :: im :: [] =>
    match c.toNat? with
    | some c => match (st.cals[c]?).join with
      | none => (st, "bad-op")
      | some cr =>
        let x := floatOf re; let y := floatOf im
        if x == 0.0 && y == 0.0 then (st, okv 0)
        else if x == 1.0 && y == 0.0 then (st, okv 1)
        else if x == -1.0 && y == 0.0 then (st, okv 2)
        else
          let (pt, i) := cr.ptab.makePlain 1
          ({ st with cals := st.cals.set c (some { cr with ptab := pt }) }, okv i)
    | none => (st, "bad-op")
  | "make_vector" :: c :: nfs :: rest =>
    match c.toNat?, nfs.toInt? with
    | some c, some nf => match (st.cals[c]?).join with
      | none => (st, "bad-op")
      | some cr =>
        if nf < 1 then (st, failInval) else
        let fs := (rest.take nf.toNat).map floatOf
        let asc := (fs.zip (fs.drop 1)).all fun (a, b) => a < b
        if ¬ (fs.head?.getD 0.0 ≥ 0.0) ∨ ¬ asc then (st, failInval) else      -- (written so that a NaN is refused, as the C tests are)
        let (pt, i) := cr.ptab.makePlain 2
        ({ st with cals := st.cals.set c (some { cr with ptab := pt }) }, okv i)
    | _, _ => (st, "bad-op")
  | "make_unknown" :: c :: [o] =>
    match c.toNat?, o.toInt? with
    | some c, some o => match (st.cals[c]?).join with
      | none => (st, "bad-op")
      | some cr =>
        match cr.ptab.makeRef 3 o with
        | (pt, some i) => ({ st with cals := st.cals.set c (some { cr with ptab := pt }) }, okv i)
        | (_, none) => (st, failInval)
    | _, _ => (st, "bad-op")
  | "make_correlated" :: c :: o :: _rest =>       -- the sigma arguments do not concern the table
    match c.toNat?, o.toInt? with
    | some c, some o => match (st.cals[c]?).join with
      | none => (st, "bad-op")
      | some cr =>
        match cr.ptab.makeRef 4 o with
        | (pt, some i) => ({ st with cals := st.cals.set c (some { cr with ptab := pt }) }, okv i)
        | (_, none) => (st, failInval)
    | _, _ => (st, "bad-op")
  | "delete_parameter" :: c :: [h] =>
    match c.toNat?, h.toInt? with
    | some c, some h => match (st.cals[c]?).join with
      | none => (st, "bad-op")
      | some cr =>
        let (pt, ok) := cr.ptab.delete h
        ({ st with cals := st.cals.set c (some { cr with ptab := pt }) }, if ok then okv 0 else failInval)
    | _, _ => (st, "bad-op")
  | "add_calibration" :: c :: name :: [n] =>
    match c.toNat?, n.toNat? with
    | some c, some n => match (st.cals[c]?).join, (st.news[n]?).join with
      | some cr, some nr =>
        if nr.cal ≠ c ∨ ¬ nr.solved then (st, failInval) else
        let (names, i) := addCal cr.names name
        ({ cals := st.cals.set c (some { cr with names := names }), news := st.news.set n (some { nr with solved := false }) }, okv i)
      | _, _ => (st, "bad-op")
    | _, _ => (st, "bad-op")
  | "delete_calibration" :: c :: [ci] =>
    match c.toNat?, ci.toInt? with
    | some c, some ci => match (st.cals[c]?).join with
      | none => (st, "bad-op")
      | some cr =>
        let (names, ok) := deleteCal cr.names ci
        ({ st with cals := st.cals.set c (some { cr with names := names }) }, if ok then okv 0 else "fail ENOENT cb=0/0")
    | _, _ => (st, "bad-op")
  | "load_names" :: c :: names =>        -- the table `vnacal_load` builds from the names of a file
    match c.toNat? with
    | some c => if c ≥ 4 then (st, "bad-op") else
      ({ st with cals := st.cals.set c (some { ptab := PTab.setup, names := loadList names }) }, okv names.length)
    | none => (st, "bad-op")
  | "find_calibration" :: c :: [name] =>
    match c.toNat? with
    | some c => match (st.cals[c]?).join with
      | none => (st, "bad-op")
      | some cr => match findName name cr.names 0 with
        | some i => (st, okv i)
        | none => (st, "fail ENOENT cb=0/0")
    | none => (st, "bad-op")
  | "get_calibration_end" :: [c] =>
    match c.toNat? with
    | some c => match (st.cals[c]?).join with
      | none => (st, "bad-op")
      | some cr => (st, okv (calEnd cr.names))
    | none => (st, "bad-op")
  | _ => unm

end Libvna.Drv
