/- Line-protocol driver for the executable models (core-only, so that it links as `vmodel`).
   One operation per input line, one canonical result line per operation. -/
import Libvna.Model.Scalar
import Libvna.Gen.Conv2Table
import Libvna.Driver.VDataDrv
import Libvna.Model.ConvN
import Libvna.Driver.NumDrv
import Libvna.Driver.FFDrv
import Libvna.Model.PValue
import Libvna.Driver.PropDrv
import Libvna.Driver.CalDrv
import Libvna.Model.Leakage
import Libvna.Model.Connect
open Libvna

structure DState where
  vd : Libvna.Drv.VSlots := List.replicate 8 none
  pt : Libvna.Drv.PRegs := List.replicate 4 Libvna.PT.Node.null
  cal : Libvna.Drv.CalState := {}

def joinHex (xs : List CF) : String := " ".intercalate (xs.map cfToHex)

def stepConv (args : List String) : String :=
  match args with
  | fn :: mode :: rest =>
    match parseCFs rest with
    | some [m11, m12, m21, m22, z1, z2] =>
      let ali := mode == "alias"
      -- the initial content of a separate output array is unspecified; use a recognisable value
      let junk : CF := ⟨12345.0, -54321.0⟩
      match Libvna.Gen.conv2Call fn ali ⟨m11, m12, m21, m22⟩ ⟨z1, z2⟩ ⟨junk, junk, junk, junk⟩ ⟨junk, junk⟩ with
      | some r => "ok " ++ joinHex r
      | none => "bad-op"
    | _ => "bad-args"
  | _ => "bad-args"

def stepConvN (args : List String) : String :=
  match args with
  | fn :: ns :: _mode :: rest =>
    match ns.toNat?, parseCFs rest with
    | some n, some vals =>
      if vals.length != n * n + n then "bad-args" else
      let m := (vals.take (n * n)).toArray
      let z0 := (vals.drop (n * n)).toArray
      match Libvna.ConvN.call CF.abs CF.conj CF.sqa fn m z0 n with
      | some r => if r.size == 0 then "ok" else "ok " ++ joinHex r.toList
      | none => "bad-op"
    | _, _ => "bad-args"
  | _ => "bad-args"

/-- `uf rows cols <rows*cols bits: cell not known to be zero>`: the connectivity matrix of `build_connectivity_matrix`, row by row -/
def stepUf (args : List String) : String :=
  match args with
  | rs :: cs :: rest =>
    match rs.toNat?, cs.toNat? with
    | some rows, some cols =>
      if rest.length != rows * cols ∨ rest.any (fun b => b != "0" && b != "1") then "bad-args" else
      let nz : Nat → Nat → Bool := fun r c => rest.getD (r * cols + c) "0" == "1"
      let n := max rows cols
      "ok" ++ (Libvna.UF.connAll nz rows cols n).foldl (fun acc b => acc ++ (if b then " 1" else " 0")) ""
    | _, _ => "bad-args"
  | _ => "bad-args"

/-- `lk ncells nstd <per standard, per cell: x (not given) | c (connected or diagonal) | re im>`: the leakage term of every cell -/
def stepLk (args : List String) : String :=
  match args with
  | nc :: ns :: rest =>
    match nc.toNat?, ns.toNat? with
    | some ncells, some nstd =>
      -- parse the standards
      let rec go (fuel : Nat) (toks : List String) (cell : Nat) (cur : List (Option CF × Bool)) (acc : List (List (Option CF × Bool))) :
          Option (List (List (Option CF × Bool))) :=
        match fuel with
        | 0 => none
        | fuel + 1 =>
          if cell = ncells then go fuel toks 0 [] (acc ++ [cur])
          else match toks with
            | [] => if cur.isEmpty && cell = 0 then some acc else none
            | "x" :: tl => go fuel tl (cell + 1) (cur ++ [(none, false)]) acc
            | "c" :: tl => go fuel tl (cell + 1) (cur ++ [(none, true)]) acc
            | re :: im :: tl =>
              match floatOfHex? re, floatOfHex? im with
              | some x, some y => go fuel tl (cell + 1) (cur ++ [(some ⟨x, y⟩, false)]) acc
              | _, _ => none
            | _ => none
      match go (rest.length + nstd + 2) rest 0 [] [] with
      | some stds =>
        if stds.length != nstd then "bad-args" else
        let sl : List (Libvna.LK.Std CF) := stds.map fun s =>
          { m := fun c => ((s[c]?).map (·.1)).join, conn := fun c => ((s[c]?).map (·.2)).getD false }
        "ok " ++ joinHex ((List.range ncells).map fun c => Libvna.LK.leak sl c)
      | none => "bad-args"
    | _, _ => "bad-args"
  | _ => "bad-args"

def stepNum (args : List String) : String :=
  match args with
  | "mldivide" :: ms :: ns :: rest =>
    match ms.toNat?, ns.toNat?, parseCFs rest with
    | some m, some n, some v =>
      if v.length != m * m + m * n then "bad-args" else
      let (x, d) := Libvna.LA.mldivide CF.abs (v.take (m * m)).toArray (v.drop (m * m)).toArray m n
      "ok " ++ cfToHex d ++ " X " ++ joinHex x.toList
    | _, _, _ => "bad-args"
  | "mrdivide" :: ms :: ns :: rest =>
    match ms.toNat?, ns.toNat?, parseCFs rest with
    | some m, some n, some v =>
      if v.length != n * n + m * n then "bad-args" else
      let (x, d) := Libvna.LA.mrdivide CF.abs (v.drop (n * n)).toArray (v.take (n * n)).toArray m n
      "ok " ++ cfToHex d ++ " X " ++ joinHex x.toList
    | _, _, _ => "bad-args"
  | "minverse" :: ns :: rest =>
    match ns.toNat?, parseCFs rest with
    | some n, some v =>
      if v.length != n * n then "bad-args" else
      let (x, d) := Libvna.LA.minverse CF.abs v.toArray n
      "ok " ++ cfToHex d ++ " X " ++ joinHex x.toList
    | _, _ => "bad-args"
  | "qrsolve" :: ms :: ns :: os :: rest =>
    match ms.toNat?, ns.toNat?, os.toNat?, parseCFs rest with
    | some m, some n, some o, some v =>
      if v.length != m * n + m * o then "bad-args" else
      let (x, _) := Libvna.LA.qrsolve Libvna.cfQROps (v.take (m * n)).toArray (v.drop (m * n)).toArray m n o
      "ok ? X " ++ joinHex x.toList
    | _, _, _, _ => "bad-args"
  | "qrsolve2" :: ms :: ns :: os :: rest =>      -- _vnacommon_qr followed by _vnacommon_qrsolve2
    match ms.toNat?, ns.toNat?, os.toNat?, parseCFs rest with
    | some m, some n, some o, some v =>
      if v.length != m * n + m * o then "bad-args" else
      let (q, r, _) := Libvna.LA.qr Libvna.cfQROps (v.take (m * n)).toArray m n
      let x := Libvna.LA.qrsolve2 Libvna.cfQROps q r (v.drop (m * n)).toArray m n o
      "ok ? X " ++ joinHex x.toList ++ " Q " ++ joinHex q.toList ++ " R " ++ joinHex r.toList
    | _, _, _, _ => "bad-args"
  | "lu" :: ns :: rest =>
    match ns.toNat?, parseCFs rest with
    | some n, some v =>
      if v.length != n * n then "bad-args" else
      let (a, ri, d) := Libvna.LA.lu CF.abs v.toArray n
      "ok " ++ cfToHex d ++ " P" ++ ri.foldl (fun acc i => acc ++ " " ++ toString i) "" ++ " A" ++
        (if n == 0 then "" else " " ++ joinHex a.toList)
    | _, _ => "bad-args"
  | ["pvalue", ns, xh] =>
    match ns.toNat?, floatOfHex? xh with
    | some n, some x2 =>
      if n % 2 != 0 ∨ n < 2 then "unmodelled" else
      "ok " ++ floatToHex (Libvna.PV.pEven Float.exp (fun a b => a <= b) (fun i => i.toFloat) (n / 2) x2)
    | _, _ => "bad-args"
  | "rfi" :: rest => Libvna.Drv.stepRfi rest
  | "spline" :: rest => Libvna.Drv.stepSpline rest
  | _ => "unmodelled"

def step (st : DState) (line : String) : DState × String :=
  match line.trimAscii.toString.splitOn " " with
  | "conv" :: rest => (st, stepConv rest)
  | "convn" :: rest => (st, stepConvN rest)
  | "num" :: rest => (st, stepNum rest)
  | "lk" :: rest => (st, stepLk rest)
  | "uf" :: rest => (st, stepUf rest)
  | "ff" :: rest => (st, Libvna.Drv.stepFF rest)
  | "npd" :: rest => (st, Libvna.Drv.stepNpd rest)
  | "iter" :: rest => (st, Libvna.Drv.stepIter rest)
  | "cal" :: rest => let (c, o) := Libvna.Drv.stepCal st.cal rest; ({ st with cal := c }, o)
  | "pt" :: rest => let (p, o) := Libvna.Drv.stepPt st.pt rest; ({ st with pt := p }, o)
  | "vd" :: rest => let (v, o) := Libvna.Drv.stepVd st.vd rest; ({ st with vd := v }, o)
  | _ => (st, "bad-op")

partial def loop (h : IO.FS.Stream) (out : IO.FS.Stream) (st : DState) : IO Unit := do
  let line ← h.getLine
  if line.isEmpty then return ()
  if line.startsWith "#" then
    loop h out st
  else
  let (st', o) := step st line
  out.putStrLn o
  loop h out st'

def main : IO Unit := do
  let stdin ← IO.getStdin
  let stdout ← IO.getStdout
  loop stdin stdout {}
  stdout.flush
