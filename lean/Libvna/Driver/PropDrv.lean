/- driver glue for the property-tree model: `pt <reg> <op> <hex descriptor>` -/
import Libvna.Model.PropTree
import Libvna.Model.Scalar
open Libvna Libvna.PT

namespace Libvna.Drv

def hex2 (b : UInt8) : String :=
  String.ofList [hexDigit (b.toUInt64 >>> 4), hexDigit (b.toUInt64 &&& 0xf)]

def bytesHex (b : Bytes) : String := b.foldl (fun acc c => acc ++ hex2 c) ""

def hexVal (c : Char) : Option UInt8 :=
  if '0' ≤ c && c ≤ '9' then some (c.toNat - '0'.toNat).toUInt8
  else if 'a' ≤ c && c ≤ 'f' then some (c.toNat - 'a'.toNat + 10).toUInt8
  else if 'A' ≤ c && c ≤ 'F' then some (c.toNat - 'A'.toNat + 10).toUInt8
  else none

def parseHexBytes (s : String) : Option Bytes :=
  let cs := (if s.startsWith "x" then s.drop 1 else s).toString.toList
  let rec go : List Char → Option Bytes
    | [] => some []
    | [_] => none
    | a :: b :: r => do
      let x ← hexVal a
      let y ← hexVal b
      let t ← go r
      pure ((x * 16 + y) :: t)
  go cs

partial def walkNode : Node → String
  | .null => "N"
  | .scalar s => "S" ++ bytesHex s
  | .map kvs => s!"M{kvs.length}\{" ++ ",".intercalate (kvs.map fun (k, v) => bytesHex k ++ ":" ++ walkNode v) ++ "}"
  | .list xs => s!"L{xs.length}[" ++ ",".intercalate (xs.map walkNode) ++ "]"

def errStr : PT.Err → String
  | .EINVAL => "EINVAL" | .ENOENT => "ENOENT" | .NONE => "0"

abbrev PRegs := List Node

def stepPt (rs : PRegs) (args : List String) : PRegs × String :=
  match args with
  | r :: op :: rest =>
    match r.toNat? with
    | none => (rs, "bad-op")
    | some i =>
      if i ≥ 4 then (rs, "bad-op") else
      let root := rs[i]?.getD .null
      let d : Option Bytes := rest.head?.bind parseHexBytes
      let upd (p : Node × Except PT.Err Unit) : PRegs × String :=
        (rs.set i p.1, match p.2 with | .ok _ => "ok 0" | .error e => "fail " ++ errStr e)
      let rd (f : Node → Except PT.Err String) : PRegs × String :=
        match d with
        | none => (rs, "bad-op")
        | some d =>
          match readNode root d with
          | .error e => (rs, "fail " ++ errStr e)
          | .ok n => match f n with
            | .ok s => (rs, "ok" ++ s)
            | .error e => (rs, "fail " ++ errStr e)
      match op, d with
      | "type", _ => rd fun n => match n with
          | .null => .error .NONE | .scalar _ => .ok " s" | .map _ => .ok " m" | .list _ => .ok " l"
      | "count", _ => rd fun n => match n with
          | .null => .error .NONE | .map kvs => .ok s!" {kvs.length}" | .list xs => .ok s!" {xs.length}" | _ => .error .EINVAL
      | "keys", _ => rd fun n => match n with
          | .null => .error .NONE | .map kvs => .ok (kvs.foldl (fun acc kv => acc ++ " x" ++ bytesHex kv.1) "") | _ => .error .EINVAL
      | "get", _ => rd fun n => match n with
          | .null => .error .NONE | .scalar s => .ok (" x" ++ bytesHex s) | _ => .error .EINVAL
      | "get_subtree", _ => rd fun n => .ok (" " ++ walkNode n)
      | "set", some d => upd (opSet root d)
      | "set_subtree", some d => upd (opSetSubtree root d)
      | "delete", some d => upd (opDelete root d)
      | "copy", _ =>
        match rest.head?.bind String.toNat? with
        | some s => if s ≥ 4 then (rs, "bad-op") else (rs.set i (rs[s]?.getD .null), "ok 0")
        | none => (rs, "bad-op")
      | "quote_key", some k => (rs, "ok x" ++ bytesHex (quoteKey k))
      | "digest", _ => (rs, "ok " ++ walkNode root)
      | "free", _ => (rs.set i .null, "ok")
      | "live", _ => (rs, if rs.all (fun n => match n with | .null => true | _ => false) then "ok live=0" else "ok live=?")
      | _, _ => (rs, "bad-op")
  | _ => (rs, "bad-op")

end Libvna.Drv
