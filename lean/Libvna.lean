-- Root of the `Libvna` library: everything `lake build` has to check.
import Libvna.Gen.Conv2All
import Libvna.Props.C01
import Libvna.Props.C04
import Libvna.Props.C05
import Libvna.Props.C06
import Libvna.Props.C08
import Libvna.Props.C09
import Libvna.Props.C10
import Libvna.Props.C12
import Libvna.Props.C13
import Libvna.Props.C14
import Libvna.Props.C15
import Libvna.Props.C16
import Libvna.Props.C17
import Libvna.Props.C19
import Libvna.Props.C20
import Libvna.Driver.Main
