-- This module serves as the root of the `Libvna` library.
-- Import modules here that should be built as part of the library.
import Libvna.Basic
