/* access to the file-local chisq_pvalue of src/vnacal_new_solve_pvalue.c: the source file itself is compiled
 * into the harness a second time, with its one external function renamed */
#define _vnacal_new_solve_calc_pvalue vh_dup_calc_pvalue
#include "vnacal_new_solve_pvalue.c"

double vh_chisq_pvalue(int n, double x2)
{
    return chisq_pvalue(n, x2);
}
