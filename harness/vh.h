/* vh: line-protocol driver over the real libvna API (tie H of DESIGN.md).
 * One operation per input line, one canonical result line per operation.
 * Doubles cross the protocol as the 16 hex digits of their IEEE bits. */
#ifndef VH_H
#define VH_H
#include "archdep.h"
#include <assert.h>
#include <complex.h>
#include <ctype.h>
#include <errno.h>
#include <math.h>
#include <stdarg.h>
#include <stdbool.h>
#include <stdint.h>
#include <stdio.h>
#include <stdlib.h>
#include <string.h>
#include <unistd.h>
#include "vnaerr.h"
#include "vnaconv.h"
#include "vnadata.h"
#include "vnaproperty.h"
#include "vnacal.h"

#define VH_MAXTOK 4096

extern int vh_ntok;
extern char *vh_tok[VH_MAXTOK];

/* output buffer helpers */
void vh_out(const char *fmt, ...);
void vh_out_double(double d);
void vh_out_complex(double complex z);
void vh_out_hexbytes(const char *s);
double vh_parse_double(const char *s);
long vh_parse_long(const char *s);
char *vh_parse_hexbytes(const char *s);	/* malloc'ed by the harness */
const char *vh_errclass(int e);

/* error callback accounting */
extern int vh_cb_errors, vh_cb_warnings;
extern int vh_cb_last_category;
extern char vh_cb_last_msg[600];
void vh_error_fn(const char *message, void *arg, vnaerr_category_t category);
void vh_cb_reset(void);

/* allocation accounting / fault injection (link-time --wrap) */
extern int vh_in_lib;		/* >0 while a libvna call is in progress */
extern long vh_alloc_calls;	/* allocations requested by libvna during the current op */
extern long vh_fault_at;	/* fail the k-th allocation (1-based), 0 = none */
extern long vh_fault_fired;
long vh_live_count(void);
void vh_live_dump(void);
long vh_live_bytes(void);
/* before every library call the stack below the harness is filled with 0xff bytes (NaN as a double, -1 as an int), and memory
 * from malloc is filled likewise: a read of memory the library never wrote gives the same, visible, result on every run */
void vh_dirty_stack(void);
#define LIB(stmt) do { vh_dirty_stack(); vh_in_lib++; stmt; vh_in_lib--; } while (0)
/* observation made of several API calls by the harness itself: not subject to the injected fault */
#define OBS(stmt) do { vh_fault_at = 0; LIB(stmt); } while (0)

/* modules */
int vh_conv(void);
int vh_convn(void);
int vh_vdata(void);
int vh_prop(void);
int vh_cal(void);
int vh_num(void);
int vh_file(void);

#endif
