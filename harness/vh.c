#include "vh.h"

int vh_ntok;
char *vh_tok[VH_MAXTOK];
int vh_cb_errors, vh_cb_warnings, vh_cb_last_category;
char vh_cb_last_msg[600];
int vh_in_lib;
long vh_alloc_calls, vh_fault_at, vh_fault_fired;

static long pending_fault, last_allocs, last_fired;
static char *outbuf;
static size_t outlen, outcap;

void vh_out(const char *fmt, ...)
{
    va_list ap;
    char tmp[65536];
    int n;

    va_start(ap, fmt);
    n = vsnprintf(tmp, sizeof(tmp), fmt, ap);
    va_end(ap);
    if (n < 0)
	abort();
    if ((size_t)n >= sizeof(tmp))
	n = sizeof(tmp) - 1;
    if (outlen + n + 1 > outcap) {
	int saved = vh_in_lib;	/* the harness's own buffer is not a library allocation */
	vh_in_lib = 0;
	outcap = (outlen + n + 1) * 2;
	outbuf = realloc(outbuf, outcap);
	vh_in_lib = saved;
	if (outbuf == NULL)
	    abort();
    }
    memcpy(outbuf + outlen, tmp, n);
    outlen += n;
    outbuf[outlen] = 0;
}

void vh_out_double(double d)
{
    uint64_t u;
    memcpy(&u, &d, 8);
    vh_out(" %016llx", (unsigned long long)u);
}

void vh_out_complex(double complex z)
{
    vh_out_double(creal(z));
    vh_out_double(cimag(z));
}

void vh_out_hexbytes(const char *s)
{
    if (s == NULL) {
	vh_out(" -");
	return;
    }
    vh_out(" x");
    for (; *s; ++s)
	vh_out("%02x", (unsigned char)*s);
}

double vh_parse_double(const char *s)
{
    uint64_t u = strtoull(s, NULL, 16);
    double d;
    memcpy(&d, &u, 8);
    return d;
}

long vh_parse_long(const char *s)
{
    return strtol(s, NULL, 10);
}

char *vh_parse_hexbytes(const char *s)
{
    size_t n;
    char *r;

    if (strcmp(s, "-") == 0)
	return NULL;
    if (*s == 'x')
	++s;
    n = strlen(s) / 2;
    r = malloc(n + 1);
    for (size_t i = 0; i < n; ++i) {
	unsigned v;
	sscanf(s + 2 * i, "%2x", &v);
	r[i] = (char)v;
    }
    r[n] = 0;
    return r;
}

const char *vh_errclass(int e)
{
    switch (e) {
    case 0: return "0";
    case EINVAL: return "EINVAL";
    case EDOM: return "EDOM";
    case EBADMSG: return "EBADMSG";
    case ENOENT: return "ENOENT";
    case ENOPROTOOPT: return "ENOPROTOOPT";
    case ENOMEM: return "ENOMEM";
    case ENOSYS: return "ENOSYS";
    default: return "other";
    }
}

void vh_error_fn(const char *message, void *arg, vnaerr_category_t category)
{
    (void)arg;
    if (category == VNAERR_WARNING)
	++vh_cb_warnings;
    else
	++vh_cb_errors;
    vh_cb_last_category = category;
    /* the message is a single line (vnaerr(3)): every line break in it counts as one more report */
    for (const char *p = message; *p != '\000'; ++p) {
	if (*p == '\n') {
	    if (category == VNAERR_WARNING) ++vh_cb_warnings; else ++vh_cb_errors;
	}
    }
    snprintf(vh_cb_last_msg, sizeof(vh_cb_last_msg), "%s", message);
    if (getenv("VH_VERBOSE") != NULL)
	fprintf(stderr, "vh: callback[%d]: %s\n", (int)category, message);
}

void vh_cb_reset(void)
{
    vh_cb_errors = vh_cb_warnings = 0;
    vh_cb_last_category = -1;
}

int main(int argc, char **argv)
{
    char *line = NULL;
    size_t cap = 0;
    ssize_t n;

    (void)argc; (void)argv;
    while ((n = getline(&line, &cap, stdin)) > 0) {
	int rc;

	vh_ntok = 0;
	for (char *p = strtok(line, " \t\r\n"); p != NULL && vh_ntok < VH_MAXTOK;
		p = strtok(NULL, " \t\r\n"))
	    vh_tok[vh_ntok++] = p;
	outlen = 0;
	if (outbuf != NULL)
	    outbuf[0] = 0;
	if (vh_ntok == 0) {
	    puts("bad-op");
	    continue;
	}
	if (vh_tok[0][0] == '#') {	/* comment line: echoed by neither side */
	    continue;
	}
	if (strcmp(vh_tok[0], "errmsg") == 0) {		/* the last message passed to the error callback */
	    printf("ok x");
	    for (const char *m = vh_cb_last_msg; *m; ++m) printf("%02x", (unsigned char)*m);
	    puts("");
	    fflush(stdout);
	    continue;
	}
	if (strcmp(vh_tok[0], "fault") == 0 && vh_ntok == 2) {	/* fail the k-th allocation of the next operation */
	    pending_fault = vh_parse_long(vh_tok[1]);
	    puts("ok");
	    fflush(stdout);
	    continue;
	}
	if (strcmp(vh_tok[0], "allocs") == 0) {	/* allocations requested by the previous operation */
	    printf("ok %ld fired=%ld\n", last_allocs, last_fired);
	    fflush(stdout);
	    continue;
	}
	vh_alloc_calls = 0;
	vh_fault_fired = 0;
	vh_fault_at = pending_fault;
	pending_fault = 0;
	if (strcmp(vh_tok[0], "conv") == 0)
	    rc = vh_conv();
	else if (strcmp(vh_tok[0], "convn") == 0)
	    rc = vh_convn();
	else if (strcmp(vh_tok[0], "vd") == 0)
	    rc = vh_vdata();
	else if (strcmp(vh_tok[0], "pt") == 0)
	    rc = vh_prop();
	else if (strcmp(vh_tok[0], "cal") == 0)
	    rc = vh_cal();
	else if (strcmp(vh_tok[0], "num") == 0)
	    rc = vh_num();
	else if (strcmp(vh_tok[0], "file") == 0)
	    rc = vh_file();
	else
	    rc = -1;
	last_allocs = vh_alloc_calls;
	last_fired = vh_fault_fired;
	vh_fault_at = 0;
	if (rc < 0 && outlen == 0)
	    vh_out("bad-op");
	puts(outbuf ? outbuf : "");
	fflush(stdout);
    }
    free(line);
    free(outbuf);
    return 0;
}
