/* vd <slot> <op> <args...> : vnadata_t through the public API only */
#include "vh.h"

#define NSLOT 8
static vnadata_t *slot[NSLOT];

static double complex parse_c(int i)
{
    return CMPLX(vh_parse_double(vh_tok[i]), vh_parse_double(vh_tok[i + 1]));
}

static void result(bool ok)
{
    if (ok)
	vh_out("ok cb=%d/%d", vh_cb_errors, vh_cb_warnings);
    else
	vh_out("fail %s cb=%d/%d", vh_errclass(errno), vh_cb_errors, vh_cb_warnings);
}

static void digest(vnadata_t *v)
{
    int rows = vnadata_get_rows(v), cols = vnadata_get_columns(v);
    int fr = vnadata_get_frequencies(v);
    int ports = rows > cols ? rows : cols;

    vh_out("ok type=%d rows=%d cols=%d freqs=%d fz0=%d ft=%d fp=%d dp=%d F", (int)vnadata_get_type(v), rows, cols, fr,
	    (int)vnadata_has_fz0(v), (int)vnadata_get_filetype(v),
	    vnadata_get_fprecision(v), vnadata_get_dprecision(v));
    for (int f = 0; f < fr; ++f)
	vh_out_double(vnadata_get_frequency(v, f));
    vh_out(" D");
    for (int f = 0; f < fr; ++f)
	for (int r = 0; r < rows; ++r)
	    for (int c = 0; c < cols; ++c)
		vh_out_complex(vnadata_get_cell(v, f, r, c));
    vh_out(" Z");
    if (vnadata_has_fz0(v)) {
	for (int f = 0; f < fr; ++f)
	    for (int p = 0; p < ports; ++p)
		vh_out_complex(vnadata_get_fz0(v, f, p));
    } else {
	for (int p = 0; p < ports; ++p)
	    vh_out_complex(vnadata_get_z0(v, p));
    }
}

int vh_vdata(void)
{
    int s;
    const char *op;
    vnadata_t *v;
    int na = vh_ntok - 3;
    char **a = vh_tok + 3;

    if (vh_ntok < 3)
	return -1;
    s = (int)vh_parse_long(vh_tok[1]);
    op = vh_tok[2];
    if (s < 0 || s >= NSLOT)
	return -1;
    vh_cb_reset();
    errno = 0;
    if (strcmp(op, "alloc") == 0) {
	if (slot[s] != NULL)
	    return -1;
	LIB(slot[s] = vnadata_alloc(vh_error_fn, NULL));
	result(slot[s] != NULL);
	return 0;
    }
    if ((v = slot[s]) == NULL)
	return -1;
    if (strcmp(op, "free") == 0) {
	LIB(vnadata_free(v));
	slot[s] = NULL;
	result(true);
	return 0;
    }
#define I4(f) do { int rc; if (na != 4) return -1; LIB(rc = f(v, (int)vh_parse_long(a[0]), (int)vh_parse_long(a[1]), \
	(int)vh_parse_long(a[2]), (int)vh_parse_long(a[3]))); result(rc == 0); return 0; } while (0)
    if (strcmp(op, "init") == 0) I4(vnadata_init);
    if (strcmp(op, "resize") == 0) I4(vnadata_resize);
    if (strcmp(op, "set_type") == 0) {
	int rc;
	if (na != 1) return -1;
	LIB(rc = vnadata_set_type(v, (int)vh_parse_long(a[0])));
	result(rc == 0);
	return 0;
    }
    if (strcmp(op, "add_frequency") == 0) {
	int rc;
	if (na != 1) return -1;
	LIB(rc = vnadata_add_frequency(v, vh_parse_double(a[0])));
	result(rc == 0);
	return 0;
    }
    if (strcmp(op, "get_frequency") == 0) {
	double d;
	if (na != 1) return -1;
	LIB(d = vnadata_get_frequency(v, (int)vh_parse_long(a[0])));
	result(d != HUGE_VAL);
	if (d != HUGE_VAL) vh_out_double(d);
	return 0;
    }
    if (strcmp(op, "get_fmin") == 0 || strcmp(op, "get_fmax") == 0) {
	double d;
	LIB(d = op[6] == 'i' ? vnadata_get_fmin(v) : vnadata_get_fmax(v));
	result(d != HUGE_VAL);
	if (d != HUGE_VAL) vh_out_double(d);
	return 0;
    }
    if (strcmp(op, "set_frequency") == 0) {
	int rc;
	if (na != 2) return -1;
	LIB(rc = vnadata_set_frequency(v, (int)vh_parse_long(a[0]), vh_parse_double(a[1])));
	result(rc == 0);
	return 0;
    }
    if (strcmp(op, "set_frequency_vector") == 0) {
	int rc, n = vnadata_get_frequencies(v);
	double *x;
	if (na != n) return -1;
	x = malloc(sizeof(double) * (n + 1));
	for (int i = 0; i < n; ++i) x[i] = vh_parse_double(a[i]);
	LIB(rc = vnadata_set_frequency_vector(v, x));
	free(x);
	result(rc == 0);
	return 0;
    }
    if (strcmp(op, "get_cell") == 0) {
	double complex z;
	if (na != 3) return -1;
	LIB(z = vnadata_get_cell(v, (int)vh_parse_long(a[0]), (int)vh_parse_long(a[1]), (int)vh_parse_long(a[2])));
	result(creal(z) != HUGE_VAL);
	if (creal(z) != HUGE_VAL) vh_out_complex(z);
	return 0;
    }
    if (strcmp(op, "set_cell") == 0) {
	int rc;
	if (na != 5) return -1;
	LIB(rc = vnadata_set_cell(v, (int)vh_parse_long(a[0]), (int)vh_parse_long(a[1]), (int)vh_parse_long(a[2]),
		    parse_c(6)));
	result(rc == 0);
	return 0;
    }
    if (strcmp(op, "get_matrix") == 0) {
	double complex *m;
	int cells = vnadata_get_rows(v) * vnadata_get_columns(v);
	if (na != 1) return -1;
	LIB(m = vnadata_get_matrix(v, (int)vh_parse_long(a[0])));
	/* with zero cells a NULL row pointer is a legitimate success value; tell the cases apart by errno */
	result(m != NULL || (cells == 0 && vh_cb_errors == 0));
	if (m != NULL)
	    for (int i = 0; i < cells; ++i) vh_out_complex(m[i]);
	return 0;
    }
    if (strcmp(op, "set_matrix") == 0) {
	int rc, cells = vnadata_get_rows(v) * vnadata_get_columns(v);
	double complex *m;
	if (na != 1 + 2 * cells) return -1;
	m = malloc(sizeof(double complex) * (cells + 1));
	for (int i = 0; i < cells; ++i) m[i] = parse_c(4 + 2 * i);
	LIB(rc = vnadata_set_matrix(v, (int)vh_parse_long(a[0]), m));
	free(m);
	result(rc == 0);
	return 0;
    }
    if (strcmp(op, "get_to_vector") == 0) {
	int rc, n = vnadata_get_frequencies(v);
	double complex *x;
	if (na != 2) return -1;
	x = malloc(sizeof(double complex) * (n + 1));
	LIB(rc = vnadata_get_to_vector(v, (int)vh_parse_long(a[0]), (int)vh_parse_long(a[1]), x));
	result(rc == 0);
	if (rc == 0) for (int i = 0; i < n; ++i) vh_out_complex(x[i]);
	free(x);
	return 0;
    }
    if (strcmp(op, "set_from_vector") == 0) {
	int rc, n = vnadata_get_frequencies(v);
	double complex *x;
	if (na != 2 + 2 * n) return -1;
	x = malloc(sizeof(double complex) * (n + 1));
	for (int i = 0; i < n; ++i) x[i] = parse_c(5 + 2 * i);
	LIB(rc = vnadata_set_from_vector(v, (int)vh_parse_long(a[0]), (int)vh_parse_long(a[1]), x));
	free(x);
	result(rc == 0);
	return 0;
    }
    if (strcmp(op, "get_z0") == 0) {
	double complex z;
	if (na != 1) return -1;
	LIB(z = vnadata_get_z0(v, (int)vh_parse_long(a[0])));
	result(creal(z) != HUGE_VAL);
	if (creal(z) != HUGE_VAL) vh_out_complex(z);
	return 0;
    }
    if (strcmp(op, "set_z0") == 0) {
	int rc;
	if (na != 3) return -1;
	LIB(rc = vnadata_set_z0(v, (int)vh_parse_long(a[0]), parse_c(4)));
	result(rc == 0);
	return 0;
    }
    if (strcmp(op, "set_all_z0") == 0) {
	int rc;
	if (na != 2) return -1;
	LIB(rc = vnadata_set_all_z0(v, parse_c(3)));
	result(rc == 0);
	return 0;
    }
    if (strcmp(op, "get_z0_vector") == 0) {
	const double complex *z;
	int rows = vnadata_get_rows(v), cols = vnadata_get_columns(v);
	int ports = rows > cols ? rows : cols;
	LIB(z = vnadata_get_z0_vector(v));
	result(z != NULL || (ports == 0 && vh_cb_errors == 0));
	if (z != NULL) for (int i = 0; i < ports; ++i) vh_out_complex(z[i]);
	return 0;
    }
    if (strcmp(op, "set_z0_vector") == 0 || strcmp(op, "set_fz0_vector") == 0) {
	int rc, off = op[4] == 'f' ? 1 : 0;
	int rows = vnadata_get_rows(v), cols = vnadata_get_columns(v);
	int ports = rows > cols ? rows : cols;
	double complex *z;
	if (na != off + 2 * ports) return -1;
	z = malloc(sizeof(double complex) * (ports + 1));
	for (int i = 0; i < ports; ++i) z[i] = parse_c(3 + off + 2 * i);
	if (off) LIB(rc = vnadata_set_fz0_vector(v, (int)vh_parse_long(a[0]), z));
	else LIB(rc = vnadata_set_z0_vector(v, z));
	free(z);
	result(rc == 0);
	return 0;
    }
    /* the object's own vector handed back to a setter (the documented way to obtain one is vnadata_get_z0_vector /
     * vnadata_get_fz0_vector): set_z0_vector_own f = set_z0_vector(v, get_fz0_vector(v, f)),
     * set_fz0_vector_own f g = set_fz0_vector(v, f, g < 0 ? get_z0_vector(v) : get_fz0_vector(v, g)) */
    if (strcmp(op, "set_z0_vector_own") == 0 || strcmp(op, "set_fz0_vector_own") == 0) {
	int rc, fz = op[4] == 'f';
	int nf = vnadata_get_frequencies(v);
	long f = vh_parse_long(a[0]), g = fz ? (na == 2 ? vh_parse_long(a[1]) : -2) : f;
	const double complex *z;
	if (na != (fz ? 2 : 1)) return -1;
	if (g < -1 || g >= nf || (g == -1 && (!fz || vnadata_has_fz0(v)))) return -1;	/* the source must exist */
	LIB(z = g < 0 ? vnadata_get_z0_vector(v) : vnadata_get_fz0_vector(v, (int)g));
	if (z == NULL && (vnadata_get_rows(v) > 0 || vnadata_get_columns(v) > 0)) return -1;
	if (fz) LIB(rc = vnadata_set_fz0_vector(v, (int)f, z));
	else LIB(rc = vnadata_set_z0_vector(v, z));
	result(rc == 0);
	return 0;
    }
    if (strcmp(op, "has_fz0") == 0) {
	bool b;
	LIB(b = vnadata_has_fz0(v));
	result(true);
	vh_out(" %d", (int)b);
	return 0;
    }
    if (strcmp(op, "get_fz0") == 0) {
	double complex z;
	if (na != 2) return -1;
	LIB(z = vnadata_get_fz0(v, (int)vh_parse_long(a[0]), (int)vh_parse_long(a[1])));
	result(creal(z) != HUGE_VAL);
	if (creal(z) != HUGE_VAL) vh_out_complex(z);
	return 0;
    }
    if (strcmp(op, "set_fz0") == 0) {
	int rc;
	if (na != 4) return -1;
	LIB(rc = vnadata_set_fz0(v, (int)vh_parse_long(a[0]), (int)vh_parse_long(a[1]), parse_c(5)));
	result(rc == 0);
	return 0;
    }
    if (strcmp(op, "get_fz0_vector") == 0) {
	const double complex *z;
	int rows = vnadata_get_rows(v), cols = vnadata_get_columns(v);
	int ports = rows > cols ? rows : cols;
	if (na != 1) return -1;
	LIB(z = vnadata_get_fz0_vector(v, (int)vh_parse_long(a[0])));
	result(z != NULL || (ports == 0 && vh_cb_errors == 0));
	if (z != NULL) for (int i = 0; i < ports; ++i) vh_out_complex(z[i]);
	return 0;
    }
    if (strcmp(op, "set_filetype") == 0 || strcmp(op, "set_fprecision") == 0 || strcmp(op, "set_dprecision") == 0) {
	int rc, x;
	if (na != 1) return -1;
	x = (int)vh_parse_long(a[0]);
	LIB(rc = op[5] == 'i' ? vnadata_set_filetype(v, x) : op[4] == 'f' ? vnadata_set_fprecision(v, x) :
		vnadata_set_dprecision(v, x));
	result(rc == 0);
	return 0;
    }
    if (strcmp(op, "set_format") == 0) {	/* vd s set_format <hex> */
	char *f;
	int rc;
	if (na != 1) return -1;
	f = vh_parse_hexbytes(a[0]);
	LIB(rc = vnadata_set_format(v, f));
	free(f);
	result(rc == 0);
	return 0;
    }
    if (strcmp(op, "get_format") == 0) {
	const char *f;
	LIB(f = vnadata_get_format(v));
	result(f != NULL);
	vh_out(" ft=%d", (int)vnadata_get_filetype(v));
	vh_out_hexbytes(f);
	return 0;
    }
    if (strcmp(op, "load") == 0 || strcmp(op, "save") == 0 || strcmp(op, "cksave") == 0) {	/* vd s load <hexpath> */
	char *f;
	int rc;
	if (na != 1) return -1;
	f = vh_parse_hexbytes(a[0]);
	LIB(rc = op[0] == 'l' ? vnadata_load(v, f) : op[0] == 's' ? vnadata_save(v, f) : vnadata_cksave(v, f));
	free(f);
	result(rc == 0);
	return 0;
    }
    if (strcmp(op, "loadstr") == 0) {		/* vd s loadstr <hexname> <hexcontent>: vnadata_fload from memory */
	char *name;
	const char *h;
	size_t n;
	unsigned char *buf;
	FILE *fp;
	int rc;
	if (na != 2) return -1;
	name = vh_parse_hexbytes(a[0]);
	h = a[1];
	if (*h == 'x') ++h;
	if (strcmp(h, "-") == 0) h = "";
	n = strlen(h) / 2;
	buf = malloc(n + 1);
	for (size_t i = 0; i < n; ++i) {
	    unsigned x;
	    sscanf(h + 2 * i, "%2x", &x);
	    buf[i] = (unsigned char)x;
	}
	fp = n > 0 ? fmemopen(buf, n, "r") : fopen("/dev/null", "r");
	if (fp == NULL) { free(buf); free(name); return -1; }
	LIB(rc = vnadata_fload(v, fp, name));
	fclose(fp);
	free(buf);
	free(name);
	result(rc == 0);
	return 0;
    }
    if (strcmp(op, "savestr") == 0) {		/* vd s savestr <hexname>: vnadata_fsave into memory */
	char *name, *buf = NULL;
	size_t len = 0;
	FILE *fp;
	int rc;
	if (na != 1) return -1;
	name = vh_parse_hexbytes(a[0]);
	fp = open_memstream(&buf, &len);
	LIB(rc = vnadata_fsave(v, fp, name));
	fclose(fp);
	free(name);
	result(rc == 0);
	if (rc == 0) {
	    vh_out(" x");
	    for (size_t i = 0; i < len; ++i) vh_out("%02x", (unsigned char)buf[i]);
	}
	free(buf);
	return 0;
    }
    if (strcmp(op, "convert") == 0) {	/* vd <src> convert <dst> <type> */
	int rc, d;
	if (na != 2) return -1;
	d = (int)vh_parse_long(a[0]);
	if (d < 0 || d >= NSLOT || slot[d] == NULL) return -1;
	LIB(rc = vnadata_convert(v, slot[d], (int)vh_parse_long(a[1])));
	result(rc == 0);
	return 0;
    }
    if (strcmp(op, "digest") == 0) {
	LIB(digest(v));
	return 0;
    }
    return -1;
}
