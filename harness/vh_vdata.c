#include "vh.h"
int vh_vdata(void) { return -1; }
