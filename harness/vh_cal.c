/* cal <op> ... : vnacal_t / vnacal_new_t / parameters through the public API */
#define _GNU_SOURCE
#include <sys/mman.h>
#include <unistd.h>
#include "vh.h"

#define NCAL 4
#define NNEW 8
static vnacal_t *cal[NCAL];
static vnacal_new_t *vnew[NNEW];
static int vnew_cal[NNEW];

static int pos;		/* token cursor */

static const char *tok(void) { return pos < vh_ntok ? vh_tok[pos++] : ""; }
static long tl(void) { return vh_parse_long(tok()); }
static double td(void) { return vh_parse_double(tok()); }
static double complex tc(void) { double r = td(); double i = td(); return CMPLX(r, i); }
static bool more(void) { return pos < vh_ntok; }

static void res(bool ok, long value)
{
    if (ok)
	vh_out("ok %ld cb=%d/%d", value, vh_cb_errors, vh_cb_warnings);
    else
	vh_out("fail %s cb=%d/%d", vh_errclass(errno), vh_cb_errors, vh_cb_warnings);
}

/* read a matrix of per-frequency vectors: rows cols then rows*cols*nf complex numbers (cell major) */
typedef struct { int rows, cols, nf; double complex **cell; } mat_t;

static mat_t read_mat(int nf)
{
    mat_t m;
    m.rows = (int)tl();
    m.cols = (int)tl();
    m.nf = nf;
    if (m.rows < 0 || m.cols < 0 || m.rows > 16 || m.cols > 16) { m.rows = m.cols = 0; }
    m.cell = calloc((size_t)m.rows * m.cols + 1, sizeof(double complex *));
    for (int c = 0; c < m.rows * m.cols; ++c) {
	m.cell[c] = calloc((size_t)nf + 1, sizeof(double complex));
	for (int f = 0; f < nf; ++f)
	    m.cell[c][f] = tc();
    }
    return m;
}

static void free_mat(mat_t *m)
{
    for (int c = 0; c < m->rows * m->cols; ++c)
	free(m->cell[c]);
    free(m->cell);
}

static void out_vnadata(vnadata_t *v)
{
    int rows = vnadata_get_rows(v), cols = vnadata_get_columns(v), fr = vnadata_get_frequencies(v);
    vh_out(" type=%d rows=%d cols=%d freqs=%d F", (int)vnadata_get_type(v), rows, cols, fr);
    for (int f = 0; f < fr; ++f)
	vh_out_double(vnadata_get_frequency(v, f));
    vh_out(" D");
    for (int f = 0; f < fr; ++f)
	for (int r = 0; r < rows; ++r)
	    for (int c = 0; c < cols; ++c)
		vh_out_complex(vnadata_get_cell(v, f, r, c));
    vh_out(" Z");
    vh_out_complex(vnadata_get_z0(v, 0));
}

int vh_cal(void)
{
    const char *op;
    int c;

    if (vh_ntok < 2)
	return -1;
    pos = 1;
    op = tok();
    vh_cb_reset();
    errno = 0;
    if (strcmp(op, "create") == 0) {
	c = (int)tl();
	if (c < 0 || c >= NCAL || cal[c] != NULL) return -1;
	LIB(cal[c] = vnacal_create(vh_error_fn, NULL));
	res(cal[c] != NULL, 0);
	return 0;
    }
    if (strcmp(op, "load") == 0) {
	char *path;
	c = (int)tl();
	if (c < 0 || c >= NCAL || cal[c] != NULL) return -1;
	path = vh_parse_hexbytes(tok());
	LIB(cal[c] = vnacal_load(path, vh_error_fn, NULL));
	free(path);
	res(cal[c] != NULL, 0);
	return 0;
    }
    if (strcmp(op, "loadstr") == 0) {		/* cal loadstr c <hexcontent>: vnacal_load from an in-memory file */
	const char *hx;
	size_t n;
	int fd;
	char path[64];
	c = (int)tl();
	if (c < 0 || c >= NCAL || cal[c] != NULL) return -1;
	hx = tok();
	if (hx == NULL) return -1;
	if (*hx == 'x') ++hx;
	if (strcmp(hx, "-") == 0) hx = "";
	n = strlen(hx) / 2;
	fd = memfd_create("vh-cal", 0);
	if (fd < 0) return -1;
	for (size_t i = 0; i < n; ++i) {
	    unsigned x;
	    unsigned char b;
	    sscanf(hx + 2 * i, "%2x", &x);
	    b = (unsigned char)x;
	    if (write(fd, &b, 1) != 1) { close(fd); return -1; }
	}
	snprintf(path, sizeof(path), "/proc/self/fd/%d", fd);
	LIB(cal[c] = vnacal_load(path, vh_error_fn, NULL));
	close(fd);
	res(cal[c] != NULL, 0);
	return 0;
    }
    if (strcmp(op, "live") == 0) {
	vh_out("ok live=%ld", vh_live_count());
	if (getenv("VH_VERBOSE") != NULL) vh_live_dump();
	return 0;
    }
    /* operations on a vnacal_new_t */
    if (strncmp(op, "new_", 4) == 0 || strcmp(op, "add") == 0 || strcmp(op, "solve") == 0 || strcmp(op, "hash_dump") == 0 || strcmp(op, "conn_dump") == 0) {
	int n;
	vnacal_new_t *vnp;
	if (strcmp(op, "new_alloc") == 0) {
	    int type, rows, cols, fr;
	    c = (int)tl(); n = (int)tl(); type = (int)tl(); rows = (int)tl(); cols = (int)tl(); fr = (int)tl();
	    if (c < 0 || c >= NCAL || cal[c] == NULL || n < 0 || n >= NNEW || vnew[n] != NULL) return -1;
	    LIB(vnew[n] = vnacal_new_alloc(cal[c], type, rows, cols, fr));
	    vnew_cal[n] = c;
	    res(vnew[n] != NULL, 0);
	    return 0;
	}
	n = (int)tl();
	if (n < 0 || n >= NNEW || (vnp = vnew[n]) == NULL) return -1;
	if (strcmp(op, "new_free") == 0) {
	    LIB(vnacal_new_free(vnp));
	    vnew[n] = NULL;
	    res(true, 0);
	    return 0;
	}
	if (strcmp(op, "new_set_frequency_vector") == 0) {
	    int nf = vh_ntok - pos, rc;
	    double *f = malloc(sizeof(double) * (nf + 1));
	    for (int i = 0; i < nf; ++i) f[i] = td();
	    LIB(rc = vnacal_new_set_frequency_vector(vnp, f));
	    free(f);
	    res(rc == 0, rc);
	    return 0;
	}
	if (strcmp(op, "new_set_z0") == 0) {
	    int rc; double complex z = tc();
	    LIB(rc = vnacal_new_set_z0(vnp, z));
	    res(rc == 0, rc);
	    return 0;
	}
	if (strcmp(op, "new_set_m_error") == 0) {	/* n nf F|N [f..] S|N [nf..] T|N [tr..] */
	    int nf = (int)tl(), rc;
	    double *fv = NULL, *sn = NULL, *st = NULL;
	    if (nf < 0 || nf > 1000) return -1;
	    if (strcmp(tok(), "F") == 0) { fv = malloc(sizeof(double) * (nf + 1)); for (int i = 0; i < nf; ++i) fv[i] = td(); }
	    if (strcmp(tok(), "S") == 0) { sn = malloc(sizeof(double) * (nf + 1)); for (int i = 0; i < nf; ++i) sn[i] = td(); }
	    if (strcmp(tok(), "T") == 0) { st = malloc(sizeof(double) * (nf + 1)); for (int i = 0; i < nf; ++i) st[i] = td(); }
	    LIB(rc = vnacal_new_set_m_error(vnp, fv, nf, sn, st));
	    free(fv); free(sn); free(st);
	    res(rc == 0, rc);
	    return 0;
	}
	if (strcmp(op, "new_set_p_tolerance") == 0 || strcmp(op, "new_set_et_tolerance") == 0 ||
		strcmp(op, "new_set_pvalue_limit") == 0) {
	    int rc; double x = td();
	    if (op[8] == 'p' && op[9] == '_') LIB(rc = vnacal_new_set_p_tolerance(vnp, x));
	    else if (op[8] == 'e') LIB(rc = vnacal_new_set_et_tolerance(vnp, x));
	    else LIB(rc = vnacal_new_set_pvalue_limit(vnp, x));
	    res(rc == 0, rc);
	    return 0;
	}
	if (strcmp(op, "new_set_iteration_limit") == 0) {
	    int rc, x = (int)tl();
	    LIB(rc = vnacal_new_set_iteration_limit(vnp, x));
	    res(rc == 0, rc);
	    return 0;
	}
	if (strcmp(op, "solve") == 0) {
	    int rc;
	    LIB(rc = vnacal_new_solve(vnp));
	    res(rc == 0, rc);
	    return 0;
	}
	if (strcmp(op, "hash_dump") == 0) {	/* hash_dump n: the chains of the per-calibration parameter table (hook, -DLIBVNA_VERIF) */
	    extern int _vnacal_new_verif_hash_dump(const vnacal_new_t *vnp, int *allocation, int *buffer, int size);
	    int alloc_ = 0, need, *buf;
	    LIB(need = _vnacal_new_verif_hash_dump(vnp, &alloc_, NULL, 0));
	    buf = malloc(sizeof(int) * (need + 1));
	    LIB(need = _vnacal_new_verif_hash_dump(vnp, &alloc_, buf, need));
	    vh_out("ok %d", alloc_);
	    for (int i = 0; i < need; ++i) { if (buf[i] < 0) vh_out(" ;"); else vh_out(" %d", buf[i]); }
	    free(buf);
	    return 0;
	}
	if (strcmp(op, "conn_dump") == 0) {	/* conn_dump n: per standard `| rows cols has <cells not known zero> [: <connectivity matrix>]` (hook) */
	    extern int _vnacal_new_verif_connectivity_dump(const vnacal_new_t *vnp, int *buffer, int size);
	    int need, *buf, i = 0;
	    LIB(need = _vnacal_new_verif_connectivity_dump(vnp, NULL, 0));
	    buf = malloc(sizeof(int) * (need + 1));
	    LIB(need = _vnacal_new_verif_connectivity_dump(vnp, buf, need));
	    vh_out("ok");
	    while (i + 3 <= need) {
		int rows = buf[i], cols = buf[i + 1], has = buf[i + 2], np = rows > cols ? rows : cols;
		vh_out(" | %d %d %d", rows, cols, has);
		i += 3;
		for (int k = 0; k < rows * cols && i < need; ++k) vh_out(" %d", buf[i++]);
		if (has) { vh_out(" :"); for (int k = 0; k < np * np && i < need; ++k) vh_out(" %d", buf[i++]); }
	    }
	    free(buf);
	    return 0;
	}
	if (strcmp(op, "add") == 0) {	/* add n <kind> <m|ab> nf <matrices> <kind args> */
	    const char *kind = tok();
	    const char *form = tok();
	    int nf = (int)tl(), rc = -1;
	    bool ab = strcmp(form, "ab") == 0;
	    mat_t a = { 0 }, b;
	    if (nf < 0 || nf > 1000) return -1;
	    if (ab) a = read_mat(nf);
	    b = read_mat(nf);
	    if (strcmp(kind, "single_reflect") == 0) {
		int s11 = (int)tl(), port = (int)tl();
		if (ab) LIB(rc = vnacal_new_add_single_reflect(vnp, a.cell, a.rows, a.cols, b.cell, b.rows, b.cols, s11, port));
		else LIB(rc = vnacal_new_add_single_reflect_m(vnp, b.cell, b.rows, b.cols, s11, port));
	    } else if (strcmp(kind, "double_reflect") == 0) {
		int s11 = (int)tl(), s22 = (int)tl(), p1 = (int)tl(), p2 = (int)tl();
		if (ab) LIB(rc = vnacal_new_add_double_reflect(vnp, a.cell, a.rows, a.cols, b.cell, b.rows, b.cols, s11, s22, p1, p2));
		else LIB(rc = vnacal_new_add_double_reflect_m(vnp, b.cell, b.rows, b.cols, s11, s22, p1, p2));
	    } else if (strcmp(kind, "line") == 0) {
		int s[4], p1, p2;
		for (int i = 0; i < 4; ++i) s[i] = (int)tl();
		p1 = (int)tl(); p2 = (int)tl();
		if (ab) LIB(rc = vnacal_new_add_line(vnp, a.cell, a.rows, a.cols, b.cell, b.rows, b.cols, s, p1, p2));
		else LIB(rc = vnacal_new_add_line_m(vnp, b.cell, b.rows, b.cols, s, p1, p2));
	    } else if (strcmp(kind, "through") == 0) {
		int p1 = (int)tl(), p2 = (int)tl();
		if (ab) LIB(rc = vnacal_new_add_through(vnp, a.cell, a.rows, a.cols, b.cell, b.rows, b.cols, p1, p2));
		else LIB(rc = vnacal_new_add_through_m(vnp, b.cell, b.rows, b.cols, p1, p2));
	    } else if (strcmp(kind, "mapped") == 0) {
		int sr = (int)tl(), sc = (int)tl();
		int *s, *map = NULL, ports;
		if (sr < 0 || sc < 0 || sr > 16 || sc > 16) { free_mat(&b); if (ab) free_mat(&a); return -1; }
		s = malloc(sizeof(int) * (sr * sc + 1));
		for (int i = 0; i < sr * sc; ++i) s[i] = (int)tl();
		ports = sr > sc ? sr : sc;
		if (strcmp(tok(), "M") == 0) {
		    map = malloc(sizeof(int) * (ports + 1));
		    for (int i = 0; i < ports; ++i) map[i] = (int)tl();
		}
		if (ab) LIB(rc = vnacal_new_add_mapped_matrix(vnp, a.cell, a.rows, a.cols, b.cell, b.rows, b.cols, s, sr, sc, map));
		else LIB(rc = vnacal_new_add_mapped_matrix_m(vnp, b.cell, b.rows, b.cols, s, sr, sc, map));
		free(s); free(map);
	    } else {
		free_mat(&b); if (ab) free_mat(&a);
		return -1;
	    }
	    free_mat(&b);
	    if (ab) free_mat(&a);
	    res(rc == 0, rc);
	    return 0;
	}
	return -1;
    }
    /* operations on a vnacal_t */
    c = (int)tl();
    if (c < 0 || c >= NCAL || cal[c] == NULL)
	return -1;
    if (strcmp(op, "free") == 0) {
	for (int n = 0; n < NNEW; ++n)		/* vnacal_free releases its vnacal_new_t's */
	    if (vnew[n] != NULL && vnew_cal[n] == c) vnew[n] = NULL;
	LIB(vnacal_free(cal[c]));
	cal[c] = NULL;
	res(true, 0);
	return 0;
    }
    if (strcmp(op, "savestr") == 0) {		/* cal savestr c: vnacal_save into memory, content as hex */
	int fd = memfd_create("vh-cal", 0), rc;
	char path[64];
	if (fd < 0) return -1;
	snprintf(path, sizeof(path), "/proc/self/fd/%d", fd);
	LIB(rc = vnacal_save(cal[c], path));
	res(rc == 0, rc);
	if (rc == 0) {
	    unsigned char b;
	    lseek(fd, 0, SEEK_SET);
	    vh_out(" x");
	    while (read(fd, &b, 1) == 1) vh_out("%02x", b);
	}
	close(fd);
	return 0;
    }
    if (strcmp(op, "save") == 0) {
	char *path = vh_parse_hexbytes(tok());
	int rc;
	LIB(rc = vnacal_save(cal[c], path));
	free(path);
	res(rc == 0, rc);
	return 0;
    }
    if (strcmp(op, "make_scalar") == 0) {
	int h; double complex g = tc();
	LIB(h = vnacal_make_scalar_parameter(cal[c], g));
	res(h >= 0, h);
	return 0;
    }
    if (strcmp(op, "make_vector") == 0) {
	int nf = (int)tl(), h;
	double *f; double complex *g;
	if (nf < 0 || nf > 1000) return -1;
	f = malloc(sizeof(double) * (nf + 1)); g = malloc(sizeof(double complex) * (nf + 1));
	for (int i = 0; i < nf; ++i) f[i] = td();
	for (int i = 0; i < nf; ++i) g[i] = tc();
	LIB(h = vnacal_make_vector_parameter(cal[c], f, nf, g));
	free(f); free(g);
	res(h >= 0, h);
	return 0;
    }
    if (strcmp(op, "make_unknown") == 0) {
	int h, other = (int)tl();
	LIB(h = vnacal_make_unknown_parameter(cal[c], other));
	res(h >= 0, h);
	return 0;
    }
    if (strcmp(op, "make_correlated") == 0) {	/* c other nsf F|N [f..] sigma.. */
	int other = (int)tl(), nsf = (int)tl(), h;
	double *f = NULL, *s;
	if (nsf < 0 || nsf > 1000) return -1;
	if (strcmp(tok(), "F") == 0) { f = malloc(sizeof(double) * (nsf + 1)); for (int i = 0; i < nsf; ++i) f[i] = td(); }
	s = malloc(sizeof(double) * (nsf + 1));
	for (int i = 0; i < nsf; ++i) s[i] = td();
	LIB(h = vnacal_make_correlated_parameter(cal[c], other, f, nsf, s));
	free(f); free(s);
	res(h >= 0, h);
	return 0;
    }
    if (strcmp(op, "delete_parameter") == 0) {
	int rc, h = (int)tl();
	LIB(rc = vnacal_delete_parameter(cal[c], h));
	res(rc == 0, rc);
	return 0;
    }
    if (strcmp(op, "get_parameter_value") == 0) {
	int h = (int)tl(); double f = td();
	double complex v;
	LIB(v = vnacal_get_parameter_value(cal[c], h, f));
	if (creal(v) == HUGE_VAL) res(false, 0);
	else { res(true, 0); vh_out_complex(v); }
	return 0;
    }
    if (strcmp(op, "add_calibration") == 0) {
	char *name = vh_parse_hexbytes(tok());
	int n = (int)tl(), ci;
	if (n < 0 || n >= NNEW || vnew[n] == NULL) { free(name); return -1; }
	LIB(ci = vnacal_add_calibration(cal[c], name, vnew[n]));
	free(name);
	res(ci >= 0, ci);
	return 0;
    }
    if (strcmp(op, "add_calibration_own") == 0) {	/* add_calibration_own c ci n: replace calibration ci under the name vnacal_get_name gives */
	int ci0 = (int)tl(), n = (int)tl(), ci;
	const char *name;
	if (n < 0 || n >= NNEW || vnew[n] == NULL) return -1;
	LIB(name = vnacal_get_name(cal[c], ci0));
	if (name == NULL) return -1;
	LIB(ci = vnacal_add_calibration(cal[c], name, vnew[n]));
	res(ci >= 0, ci);
	return 0;
    }
    if (strcmp(op, "delete_calibration") == 0) {
	int rc, ci = (int)tl();
	LIB(rc = vnacal_delete_calibration(cal[c], ci));
	res(rc == 0, rc);
	return 0;
    }
    if (strcmp(op, "find_calibration") == 0) {
	char *name = vh_parse_hexbytes(tok());
	int ci;
	LIB(ci = vnacal_find_calibration(cal[c], name));
	free(name);
	res(ci >= 0, ci);
	return 0;
    }
    if (strcmp(op, "get_calibration_end") == 0) {
	int e;
	LIB(e = vnacal_get_calibration_end(cal[c]));
	res(e >= 0, e);
	return 0;
    }
    if (strcmp(op, "get_filename") == 0) {	/* get_filename c */
	const char *name;
	LIB(name = vnacal_get_filename(cal[c]));
	vh_out("ok ");
	if (name == NULL) vh_out("null"); else vh_out_hexbytes(name);
	return 0;
    }
    if (strcmp(op, "get_info") == 0) {
	int ci = (int)tl();
	const char *name;
	LIB(name = vnacal_get_name(cal[c], ci));
	if (name == NULL) { res(false, 0); return 0; }
	res(true, 0);
	vh_out_hexbytes(name);
	{
	    int type, rows, cols, fr;
	    double fmin, fmax;
	    double complex z0;
	    const double *fv;
	    LIB(type = vnacal_get_type(cal[c], ci));
	    LIB(rows = vnacal_get_rows(cal[c], ci));
	    LIB(cols = vnacal_get_columns(cal[c], ci));
	    LIB(fr = vnacal_get_frequencies(cal[c], ci));
	    LIB(fmin = vnacal_get_fmin(cal[c], ci));
	    LIB(fmax = vnacal_get_fmax(cal[c], ci));
	    LIB(z0 = vnacal_get_z0(cal[c], ci));
	    LIB(fv = vnacal_get_frequency_vector(cal[c], ci));
	    vh_out(" type=%d rows=%d cols=%d freqs=%d", type, rows, cols, fr);
	    vh_out_double(fmin); vh_out_double(fmax); vh_out_complex(z0);
	    vh_out(" F");
	    if (fv != NULL) for (int i = 0; i < fr; ++i) vh_out_double(fv[i]);
	    vh_out(" cb=%d/%d", vh_cb_errors, vh_cb_warnings);
	}
	return 0;
    }
    if (strcmp(op, "set_fprecision") == 0 || strcmp(op, "set_dprecision") == 0) {
	int rc, p = (int)tl();
	LIB(rc = op[4] == 'f' ? vnacal_set_fprecision(cal[c], p) : vnacal_set_dprecision(cal[c], p));
	res(rc == 0, rc);
	return 0;
    }
    if (strcmp(op, "apply") == 0) {	/* apply c ci m|ab nf f.. <matrices> */
	int ci = (int)tl();
	bool ab = strcmp(tok(), "ab") == 0;
	int nf = (int)tl(), rc;
	double *f;
	mat_t a = { 0 }, b;
	vnadata_t *out;
	if (nf < 0 || nf > 1000) return -1;
	f = malloc(sizeof(double) * (nf + 1));
	for (int i = 0; i < nf; ++i) f[i] = td();
	if (ab) a = read_mat(nf);
	b = read_mat(nf);
	out = vnadata_alloc(vh_error_fn, NULL);
	if (ab) LIB(rc = vnacal_apply(cal[c], ci, f, nf, a.cell, a.rows, a.cols, b.cell, b.rows, b.cols, out));
	else LIB(rc = vnacal_apply_m(cal[c], ci, f, nf, b.cell, b.rows, b.cols, out));
	res(rc == 0, rc);
	if (rc == 0) LIB(out_vnadata(out));
	LIB(vnadata_free(out));
	free(f); free_mat(&b); if (ab) free_mat(&a);
	return 0;
    }
    if (strcmp(op, "ptprop") == 0) {	/* ptprop c ci <pop> <hexdesc> [<hexvalue>]: the `pt` operations through vnacal_property_*, answers in `pt` form */
	extern void vh_prop_walk(const vnaproperty_t *node);
	int ci = (int)tl();
	const char *pop = tok();
	char *d = vh_parse_hexbytes(tok());
	if (d == NULL) return -1;
	errno = 0;
	if (strcmp(pop, "type") == 0) {
	    int t; LIB(t = vnacal_property_type(cal[c], ci, "%s", d));
	    if (t == -1) vh_out("fail %s", vh_errclass(errno)); else vh_out("ok %c", t);
	} else if (strcmp(pop, "count") == 0) {
	    int n; LIB(n = vnacal_property_count(cal[c], ci, "%s", d));
	    if (n == -1) vh_out("fail %s", vh_errclass(errno)); else vh_out("ok %d", n);
	} else if (strcmp(pop, "keys") == 0) {
	    const char **k; LIB(k = vnacal_property_keys(cal[c], ci, "%s", d));
	    if (k == NULL) vh_out("fail %s", vh_errclass(errno));
	    else { vh_out("ok"); for (const char **kp = k; *kp; ++kp) vh_out_hexbytes(*kp); LIB(free(k)); }
	} else if (strcmp(pop, "get") == 0) {
	    const char *v; LIB(v = vnacal_property_get(cal[c], ci, "%s", d));
	    if (v == NULL) vh_out("fail %s", vh_errclass(errno)); else { vh_out("ok"); vh_out_hexbytes(v); }
	} else if (strcmp(pop, "set") == 0) {
	    int rc; LIB(rc = vnacal_property_set(cal[c], ci, "%s", d));
	    if (rc == -1) vh_out("fail %s", vh_errclass(errno)); else vh_out("ok %d", rc);
	} else if (strcmp(pop, "delete") == 0) {
	    int rc; LIB(rc = vnacal_property_delete(cal[c], ci, "%s", d));
	    if (rc == -1) vh_out("fail %s", vh_errclass(errno)); else vh_out("ok %d", rc);
	} else if (strcmp(pop, "get_subtree") == 0) {
	    vnaproperty_t *s; LIB(s = vnacal_property_get_subtree(cal[c], ci, "%s", d));
	    if (s == NULL && errno != 0) vh_out("fail %s", vh_errclass(errno)); else { vh_out("ok "); OBS(vh_prop_walk(s)); }
	} else if (strcmp(pop, "set_subtree") == 0) {
	    vnaproperty_t **a; LIB(a = vnacal_property_set_subtree(cal[c], ci, "%s", d));
	    if (a == NULL) vh_out("fail %s", vh_errclass(errno));
	    else if (vh_ntok >= 7) {
		char *d2 = vh_parse_hexbytes(vh_tok[6]);
		int rc; LIB(rc = vnaproperty_set(a, "%s", d2));
		free(d2);
		if (rc == -1) vh_out("fail %s", vh_errclass(errno)); else vh_out("ok %d", rc);
	    } else vh_out("ok 0");
	} else if (strcmp(pop, "digest") == 0) {
	    vnaproperty_t *s; LIB(s = vnacal_property_get_subtree(cal[c], ci, "."));
	    if (s == NULL && errno != 0) vh_out("fail %s", vh_errclass(errno)); else { vh_out("ok "); OBS(vh_prop_walk(s)); }
	} else { free(d); return -1; }
	free(d);
	return 0;
    }
    if (strcmp(op, "property") == 0) {	/* property c ci <pop> <hexdesc> */
	int ci = (int)tl();
	const char *pop = tok();
	char *d = vh_parse_hexbytes(tok());
	if (d == NULL) return -1;
	if (strcmp(pop, "set") == 0) {
	    int rc; LIB(rc = vnacal_property_set(cal[c], ci, "%s", d)); res(rc == 0, rc);
	} else if (strcmp(pop, "delete") == 0) {
	    int rc; LIB(rc = vnacal_property_delete(cal[c], ci, "%s", d)); res(rc == 0, rc);
	} else if (strcmp(pop, "get") == 0) {
	    const char *v; LIB(v = vnacal_property_get(cal[c], ci, "%s", d));
	    res(v != NULL, 0); if (v != NULL) vh_out_hexbytes(v);
	} else if (strcmp(pop, "type") == 0) {
	    int t; LIB(t = vnacal_property_type(cal[c], ci, "%s", d)); res(t != -1, t);
	} else if (strcmp(pop, "count") == 0) {
	    int t; LIB(t = vnacal_property_count(cal[c], ci, "%s", d)); res(t != -1, t);
	} else if (strcmp(pop, "keys") == 0) {
	    const char **k; LIB(k = vnacal_property_keys(cal[c], ci, "%s", d));
	    res(k != NULL, 0);
	    if (k != NULL) { for (const char **kp = k; *kp; ++kp) vh_out_hexbytes(*kp); LIB(free(k)); }
	} else if (strcmp(pop, "set_subtree") == 0) {
	    vnaproperty_t **anchor; LIB(anchor = vnacal_property_set_subtree(cal[c], ci, "%s", d)); res(anchor != NULL, 0);
	} else if (strcmp(pop, "digest") == 0) {	/* the whole subtree, as `pt r digest` prints a register */
	    extern void vh_prop_walk(const vnaproperty_t *node);
	    vnaproperty_t *sub; errno = 0; LIB(sub = vnacal_property_get_subtree(cal[c], ci, "%s", d));
	    if (sub == NULL && errno != 0) vh_out("fail %s", vh_errclass(errno));
	    else { vh_out("ok "); OBS(vh_prop_walk(sub)); }
	} else { free(d); return -1; }
	free(d);
	return 0;
    }
    return -1;
}
