#include "vh.h"
int vh_cal(void) { return -1; }
