#include "vh.h"
int vh_file(void) { return -1; }
