/* conv <fn> sep|alias <12 hex words: m11 m12 m21 m22 z1 z2 (re im each)> */
#include "vh.h"

typedef void (*fn0_t)(const double complex (*)[2], double complex (*)[2]);
typedef void (*fn1_t)(const double complex (*)[2], double complex (*)[2], const double complex *);
typedef void (*fn2_t)(const double complex (*)[2], double complex *, const double complex *);

static const struct {
    const char *name;
    int kind;
    void (*fn)(void);
} table[] = {
#include "conv2_table.inc"
};

int vh_conv(void)
{
    double complex in[2][2], out[2][2], z0[2], zi[2];
    bool alias;

    if (vh_ntok != 3 + 12)
	return -1;
    alias = strcmp(vh_tok[2], "alias") == 0;
    for (int i = 0; i < 4; ++i)
	in[i / 2][i % 2] = CMPLX(vh_parse_double(vh_tok[3 + 2 * i]), vh_parse_double(vh_tok[4 + 2 * i]));
    for (int i = 0; i < 2; ++i)
	z0[i] = CMPLX(vh_parse_double(vh_tok[11 + 2 * i]), vh_parse_double(vh_tok[12 + 2 * i]));
    for (size_t k = 0; k < sizeof(table) / sizeof(table[0]); ++k) {
	if (strcmp(table[k].name, vh_tok[1]) != 0)
	    continue;
	for (int i = 0; i < 4; ++i)
	    out[i / 2][i % 2] = 12345.0 - 54321.0 * I;
	zi[0] = zi[1] = 12345.0 - 54321.0 * I;
	switch (table[k].kind) {
	case 0:
	    if (alias) { ((fn0_t)table[k].fn)(in, in); memcpy(out, in, sizeof(out)); }
	    else ((fn0_t)table[k].fn)(in, out);
	    break;
	case 1:
	    if (alias) { ((fn1_t)table[k].fn)(in, in, z0); memcpy(out, in, sizeof(out)); }
	    else ((fn1_t)table[k].fn)(in, out, z0);
	    break;
	case 2:
	    /* alias: the output vector overlaid on the input matrix, as vnadata_convert does in place */
	    if (alias) { ((fn2_t)table[k].fn)(in, &in[0][0], z0); zi[0] = in[0][0]; zi[1] = in[0][1]; }
	    else ((fn2_t)table[k].fn)(in, zi, z0);
	    vh_out("ok");
	    vh_out_complex(zi[0]);
	    vh_out_complex(zi[1]);
	    return 0;
	}
	vh_out("ok");
	for (int i = 0; i < 4; ++i)
	    vh_out_complex(out[i / 2][i % 2]);
	return 0;
    }
    return -1;
}

/* convn <fn> <n> sep|alias <n*n complex> <n complex z0> */
typedef void (*fnn1_t)(const double complex *, double complex *, const double complex *, int);
typedef void (*fnn0_t)(const double complex *, double complex *, int);

static const struct {
    const char *name;
    int kind;	/* 0: (in,out,n)  1: (in,out,z0,n)  2: zin (in,zi,z0,n) */
    void (*fn)(void);
} ntable[] = {
    { "vnaconv_stozn", 1, (void (*)(void))vnaconv_stozn },
    { "vnaconv_stoyn", 1, (void (*)(void))vnaconv_stoyn },
    { "vnaconv_ztosn", 1, (void (*)(void))vnaconv_ztosn },
    { "vnaconv_ytosn", 1, (void (*)(void))vnaconv_ytosn },
    { "vnaconv_ztoyn", 0, (void (*)(void))vnaconv_ztoyn },
    { "vnaconv_ytozn", 0, (void (*)(void))vnaconv_ytozn },
    { "vnaconv_stozin", 2, (void (*)(void))vnaconv_stozin },
    { "vnaconv_ztozin", 2, (void (*)(void))vnaconv_ztozin },
    { "vnaconv_ytozin", 2, (void (*)(void))vnaconv_ytozin },
};

int vh_convn(void)
{
    int n;
    bool alias;
    double complex *in, *out, *z0;

    if (vh_ntok < 4)
	return -1;
    n = (int)vh_parse_long(vh_tok[2]);
    alias = strcmp(vh_tok[3], "alias") == 0;
    if (n < 0 || n > 16 || vh_ntok != 4 + 2 * n * n + 2 * n)
	return -1;
    in = malloc(sizeof(double complex) * (n * n + 1));
    out = malloc(sizeof(double complex) * (n * n + 1));
    z0 = malloc(sizeof(double complex) * (n + 1));
    for (int i = 0; i < n * n; ++i) {
	in[i] = CMPLX(vh_parse_double(vh_tok[4 + 2 * i]), vh_parse_double(vh_tok[5 + 2 * i]));
	out[i] = 12345.0 - 54321.0 * I;
    }
    for (int i = 0; i < n; ++i)
	z0[i] = CMPLX(vh_parse_double(vh_tok[4 + 2 * n * n + 2 * i]), vh_parse_double(vh_tok[5 + 2 * n * n + 2 * i]));
    for (size_t k = 0; k < sizeof(ntable) / sizeof(ntable[0]); ++k) {
	int cnt = n * n;
	if (strcmp(ntable[k].name, vh_tok[1]) != 0)
	    continue;
	switch (ntable[k].kind) {
	case 0:
	    ((fnn0_t)ntable[k].fn)(in, alias ? in : out, n);
	    break;
	case 1:
	    ((fnn1_t)ntable[k].fn)(in, alias ? in : out, z0, n);
	    break;
	case 2:
	    if (alias) { free(in); free(out); free(z0); return -1; }
	    ((fnn1_t)ntable[k].fn)(in, out, z0, n);
	    cnt = n;
	    break;
	}
	vh_out("ok");
	for (int i = 0; i < cnt; ++i)
	    vh_out_complex(alias ? in[i] : out[i]);
	free(in); free(out); free(z0);
	return 0;
    }
    free(in); free(out); free(z0);
    return -1;
}
