/* Link-time interposition (-Wl,--wrap=...) of the allocation functions used by libvna:
 * counts allocations requested while a libvna call is in progress, fails the k-th one on
 * request, and keeps the set of live blocks allocated by the library. */
#include "vh.h"
#include <sanitizer/common_interface_defs.h>

void *__real_malloc(size_t);
void *__real_calloc(size_t, size_t);
void *__real_realloc(void *, size_t);
void __real_free(void *);
char *__real_strdup(const char *);
int __real_vasprintf(char **, const char *, va_list);

#define TCAP (1u << 23)	/* (a 1000 x 2 U16 calibration is two million blocks; the table must never fill: open addressing) */
/* pointers are stored scrambled so that LeakSanitizer does not see this table as a reference */
#define SCR(p) ((void *)((uintptr_t)(p) ^ (uintptr_t)0x5a5a5a5a5a5a5a5aULL))
static struct { void *p; size_t n; } tab[TCAP];
static long live_count, live_bytes, used_slots;

static unsigned hashp(void *p) { return (unsigned)(((uintptr_t)p >> 4) * 2654435761u) & (TCAP - 1); }

static void track(void *p, size_t n)
{
    unsigned h;
    if (p == NULL) return;
    if (live_count >= (long)(TCAP / 4 * 3)) {		/* cannot happen within the 1 GiB the sanitizer run time allows; never spin */
	fprintf(stderr, "vh: allocation table full\n");
	abort();
    }
    for (h = hashp(p); tab[h].p != NULL && tab[h].p != (void *)1; h = (h + 1) & (TCAP - 1)) {}
    if (tab[h].p == NULL) ++used_slots;
    tab[h].p = SCR(p); tab[h].n = n;
    ++live_count; live_bytes += n;
}

static bool untrack(void *p)
{
    unsigned h;
    if (p == NULL) return false;
    unsigned probes = 0;
    for (h = hashp(p); tab[h].p != NULL && probes < TCAP; h = (h + 1) & (TCAP - 1), ++probes) {
	if (tab[h].p == SCR(p)) {
	    tab[h].p = (void *)1;	/* tombstone */
	    --live_count; live_bytes -= tab[h].n;
	    if (live_count == 0 && used_slots > (long)(TCAP / 8)) {	/* nothing live: drop the tombstones of a long history */
		memset(tab, 0, sizeof(tab));
		used_slots = 0;
	    }
	    return true;
	}
    }
    return false;
}

__attribute__((noinline)) void vh_dirty_stack(void)
{
    volatile unsigned char buf[192 * 1024];
    memset((void *)buf, 0xff, sizeof(buf));
    __asm__ volatile("" : : "r"(buf) : "memory");
}

long vh_live_count(void) { return live_count; }
void vh_live_dump(void)
{
    int shown = 0;
    for (unsigned h = 0; h < TCAP && shown < 40; ++h)
	if (tab[h].p != NULL && tab[h].p != (void *)1) { vh_out(" %zu", tab[h].n); ++shown; }
}
long vh_live_bytes(void) { return live_bytes; }

static bool fault(void)
{
    if (vh_in_lib <= 0)
	return false;
    ++vh_alloc_calls;
    if (vh_fault_at != 0 && vh_alloc_calls == vh_fault_at) {
	++vh_fault_fired;
	if (getenv("VH_FAULT_TRACE") != NULL)	/* debugging aid: where the injected failure hit */
	    __sanitizer_print_stack_trace();
	errno = ENOMEM;
	return true;
    }
    return false;
}

void *__wrap_malloc(size_t n)
{
    void *p;
    if (fault()) return NULL;
    p = __real_malloc(n);
    if (vh_in_lib > 0) {
	track(p, n);
#ifndef VH_MSAN	/* (MemorySanitizer tracks it exactly: a fill would count as initialisation) */
	/* make a read of memory the library never wrote deterministic and visible (NaN as a double) */
	if (p != NULL) memset(p, 0xff, n);
#endif
    }
    return p;
}

void *__wrap_calloc(size_t a, size_t b)
{
    void *p;
    if (fault()) return NULL;
    p = __real_calloc(a, b);
    if (vh_in_lib > 0) track(p, a * b);
    return p;
}

void *__wrap_realloc(void *q, size_t n)
{
    void *p;
    bool was;
    if (fault()) return NULL;
    was = untrack(q);
    p = __real_realloc(q, n);
    if (p == NULL && n != 0) {
	if (was) track(q, 0);
	return NULL;
    }
    if (vh_in_lib > 0 || was) track(p, n);
    return p;
}

void __wrap_free(void *p)
{
    untrack(p);
    __real_free(p);
}

char *__wrap_strdup(const char *s)
{
    char *p;
    if (fault()) return NULL;
    p = __real_strdup(s);
    if (vh_in_lib > 0) track(p, strlen(s) + 1);
    return p;
}

int __wrap_vasprintf(char **out, const char *fmt, va_list ap)
{
    int rc;
    if (fault()) { *out = NULL; return -1; }
    rc = __real_vasprintf(out, fmt, ap);
    if (rc >= 0 && vh_in_lib > 0) track(*out, (size_t)rc + 1);
    return rc;
}
