/* pt <reg> <op> <args...> : vnaproperty through the public API; descriptors and values travel as hex bytes */
#include "vh.h"
#include <yaml.h>

#define NREG 4
static vnaproperty_t *reg[NREG];

/* canonical walk of a subtree through the public API only */
static void walk(const vnaproperty_t *node);
void vh_prop_walk(const vnaproperty_t *node) { walk(node); }

static void walk(const vnaproperty_t *node)
{
    int t;

    if (node == NULL) {
	vh_out("N");
	return;
    }
    errno = 0;
    t = vnaproperty_type(node, ".");
    switch (t) {
    case 's':
	{
	    const char *v = vnaproperty_get(node, ".");
	    vh_out("S");
	    if (v == NULL) vh_out("?");
	    else for (; *v; ++v) vh_out("%02x", (unsigned char)*v);
	}
	return;
    case 'm':
	{
	    const char **keys = vnaproperty_keys(node, "{}");
	    int n = vnaproperty_count(node, ".");
	    int k = 0;
	    vh_out("M%d{", n);
	    if (keys == NULL) {
		vh_out("?}");
		return;
	    }
	    for (const char **kp = keys; *kp != NULL; ++kp, ++k) {
		char *q = vnaproperty_quote_key(*kp);
		vnaproperty_t *child;
		if (k) vh_out(",");
		for (const char *c = *kp; *c; ++c) vh_out("%02x", (unsigned char)*c);
		vh_out(":");
		if (q == NULL) { vh_out("?"); continue; }
		errno = 0;
		child = vnaproperty_get_subtree(node, "%s", q);
		if (child == NULL && errno != 0) vh_out("?%s", vh_errclass(errno));
		else walk(child);
		free(q);
	    }
	    free(keys);
	    vh_out("}");
	}
	return;
    case 'l':
	{
	    int n = vnaproperty_count(node, "[]");
	    vh_out("L%d[", n);
	    for (int i = 0; i < n; ++i) {
		vnaproperty_t *child;
		if (i) vh_out(",");
		errno = 0;
		child = vnaproperty_get_subtree(node, "[%d]", i);
		if (child == NULL && errno != 0) vh_out("?%s", vh_errclass(errno));
		else walk(child);
	    }
	    vh_out("]");
	}
	return;
    default:
	vh_out("?type%d", t);
    }
}

/* the node tree libyaml's parser reports for a document: used to test the libyaml contract of C14 */
static void ytree(yaml_document_t *doc, yaml_node_t *n)
{
    if (n == NULL) { vh_out("?"); return; }
    switch (n->type) {
    case YAML_SCALAR_NODE:
	vh_out("S%c", n->data.scalar.style == YAML_PLAIN_SCALAR_STYLE ? 'p' : 'o');
	for (size_t i = 0; i < n->data.scalar.length; ++i) vh_out("%02x", n->data.scalar.value[i]);
	return;
    case YAML_MAPPING_NODE:
	vh_out("M{");
	for (yaml_node_pair_t *p = n->data.mapping.pairs.start; p < n->data.mapping.pairs.top; ++p) {
	    if (p != n->data.mapping.pairs.start) vh_out(",");
	    ytree(doc, yaml_document_get_node(doc, p->key));
	    vh_out(":");
	    ytree(doc, yaml_document_get_node(doc, p->value));
	}
	vh_out("}");
	return;
    case YAML_SEQUENCE_NODE:
	vh_out("Q[");
	for (yaml_node_item_t *it = n->data.sequence.items.start; it < n->data.sequence.items.top; ++it) {
	    if (it != n->data.sequence.items.start) vh_out(",");
	    ytree(doc, yaml_document_get_node(doc, *it));
	}
	vh_out("]");
	return;
    default:
	vh_out("?");
    }
}

static void res_int(int rc)
{
    if (rc == -1) vh_out("fail %s", vh_errclass(errno));
    else vh_out("ok %d", rc);
}

int vh_prop(void)
{
    int r;
    const char *op;
    char *d = NULL;

    if (vh_ntok < 3)
	return -1;
    r = (int)vh_parse_long(vh_tok[1]);
    op = vh_tok[2];
    if (r < 0 || r >= NREG)
	return -1;
    vh_cb_reset();
    if (vh_ntok >= 4)
	d = vh_parse_hexbytes(vh_tok[3]);
    errno = 0;
    if (strcmp(op, "type") == 0 && d) {
	int t;
	LIB(t = vnaproperty_type(reg[r], "%s", d));
	if (t == -1) vh_out("fail %s", vh_errclass(errno)); else vh_out("ok %c", t);
    } else if (strcmp(op, "count") == 0 && d) {
	int n;
	LIB(n = vnaproperty_count(reg[r], "%s", d));
	res_int(n);
    } else if (strcmp(op, "keys") == 0 && d) {
	const char **k;
	LIB(k = vnaproperty_keys(reg[r], "%s", d));
	if (k == NULL) vh_out("fail %s", vh_errclass(errno));
	else {
	    vh_out("ok");
	    for (const char **kp = k; *kp; ++kp) vh_out_hexbytes(*kp);
	    LIB(free(k));
	}
    } else if (strcmp(op, "get") == 0 && d) {
	const char *v;
	LIB(v = vnaproperty_get(reg[r], "%s", d));
	if (v == NULL) vh_out("fail %s", vh_errclass(errno));
	else { vh_out("ok"); vh_out_hexbytes(v); }
    } else if (strcmp(op, "set") == 0 && d) {
	int rc;
	LIB(rc = vnaproperty_set(&reg[r], "%s", d));
	res_int(rc);
    } else if (strcmp(op, "delete") == 0 && d) {
	int rc;
	LIB(rc = vnaproperty_delete(&reg[r], "%s", d));
	res_int(rc);
    } else if (strcmp(op, "get_subtree") == 0 && d) {
	vnaproperty_t *s;
	LIB(s = vnaproperty_get_subtree(reg[r], "%s", d));
	if (s == NULL && errno != 0) vh_out("fail %s", vh_errclass(errno));
	else { vh_out("ok "); OBS(walk(s)); }
    } else if (strcmp(op, "set_subtree") == 0 && d) {	/* then optionally set a value through the returned anchor */
	vnaproperty_t **a;
	LIB(a = vnaproperty_set_subtree(&reg[r], "%s", d));
	if (a == NULL) vh_out("fail %s", vh_errclass(errno));
	else {
	    if (vh_ntok >= 5) {
		char *d2 = vh_parse_hexbytes(vh_tok[4]);
		int rc;
		LIB(rc = vnaproperty_set(a, "%s", d2));
		free(d2);
		res_int(rc);
	    } else
		vh_out("ok 0");
	}
    } else if (strcmp(op, "copy") == 0) {		/* pt <dst> copy <src> */
	int s = (int)vh_parse_long(vh_tok[3]);
	int rc;
	if (s < 0 || s >= NREG) { free(d); return -1; }
	LIB(rc = vnaproperty_copy(&reg[r], reg[s]));
	res_int(rc);
    } else if (strcmp(op, "quote_key") == 0 && d) {
	char *q;
	LIB(q = vnaproperty_quote_key(d));
	if (q == NULL) vh_out("fail %s", vh_errclass(errno));
	else { vh_out("ok"); vh_out_hexbytes(q); LIB(free(q)); }
    } else if (strcmp(op, "digest") == 0) {
	vh_out("ok ");
	OBS(walk(reg[r]));
    } else if (strcmp(op, "export") == 0) {
	char *buf = NULL;
	size_t len = 0;
	FILE *fp = open_memstream(&buf, &len);
	int rc;
	LIB(rc = vnaproperty_export_yaml_to_file(reg[r], fp, "-", vh_error_fn, NULL));
	fclose(fp);
	if (rc == -1) vh_out("fail %s cb=%d/%d", vh_errclass(errno), vh_cb_errors, vh_cb_warnings);
	else { vh_out("ok cb=%d/%d", vh_cb_errors, vh_cb_warnings); vh_out_hexbytes(buf); }
	free(buf);
    } else if (strcmp(op, "import") == 0 && d) {
	int rc;
	LIB(rc = vnaproperty_import_yaml_from_string(&reg[r], d, vh_error_fn, NULL));
	if (rc == -1) vh_out("fail %s cb=%d/%d", vh_errclass(errno), vh_cb_errors, vh_cb_warnings);
	else vh_out("ok cb=%d/%d", vh_cb_errors, vh_cb_warnings);
    } else if (strcmp(op, "importf") == 0 && d) {	/* the same through vnaproperty_import_yaml_from_file */
	int rc;
	FILE *fp = fmemopen((void *)d, strlen(d), "r");
	if (fp == NULL) return -1;
	LIB(rc = vnaproperty_import_yaml_from_file(&reg[r], fp, "-", vh_error_fn, NULL));
	fclose(fp);
	if (rc == -1) vh_out("fail %s cb=%d/%d", vh_errclass(errno), vh_cb_errors, vh_cb_warnings);
	else vh_out("ok cb=%d/%d", vh_cb_errors, vh_cb_warnings);
    } else if (strcmp(op, "yamltree") == 0 && d) {
	yaml_parser_t parser;
	yaml_document_t doc;
	yaml_parser_initialize(&parser);
	yaml_parser_set_input_string(&parser, (const unsigned char *)d, strlen(d));
	if (!yaml_parser_load(&parser, &doc)) vh_out("fail parse");
	else {
	    vh_out("ok ");
	    ytree(&doc, yaml_document_get_root_node(&doc));
	    yaml_document_delete(&doc);
	}
	yaml_parser_delete(&parser);
    } else if (strcmp(op, "free") == 0) {
	LIB(vnaproperty_delete(&reg[r], "."));
	vh_out("ok");
    } else if (strcmp(op, "live") == 0) {	/* allocations made by the library that are still live */
	vh_out("ok live=%ld", vh_live_count());
    } else {
	free(d);
	return -1;
    }
    free(d);
    return 0;
}
