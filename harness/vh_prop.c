#include "vh.h"
int vh_prop(void) { return -1; }
