/* num <op> ... : the internal numeric kernels (non-static symbols of libvna.a) */
#include "vh.h"
#include "vnacommon_internal.h"

static double complex *parse_cvec(int start, int count)
{
    double complex *v = malloc(sizeof(double complex) * (count + 1));
    for (int i = 0; i < count; ++i)
	v[i] = CMPLX(vh_parse_double(vh_tok[start + 2 * i]), vh_parse_double(vh_tok[start + 2 * i + 1]));
    return v;
}

static double *parse_dvec(int start, int count)
{
    double *v = malloc(sizeof(double) * (count + 1));
    for (int i = 0; i < count; ++i)
	v[i] = vh_parse_double(vh_tok[start + i]);
    return v;
}

extern double complex _vnacal_rfi(const double *xp, double complex *yp, int n, int m, int *segment, double x);

int vh_num(void)
{
    const char *op;

    if (vh_ntok < 2)
	return -1;
    op = vh_tok[1];
    if (strcmp(op, "lu") == 0) {		/* num lu n A */
	int n = (int)vh_parse_long(vh_tok[2]);
	double complex *a, d;
	int *ri;
	if (n < 0 || n > 64 || vh_ntok != 3 + 2 * n * n) return -1;
	a = parse_cvec(3, n * n);
	ri = malloc(sizeof(int) * (n + 1));
	LIB(d = _vnacommon_lu(a, ri, n));
	vh_out("ok");
	vh_out_complex(d);
	vh_out(" P");
	for (int i = 0; i < n; ++i) vh_out(" %d", ri[i]);
	vh_out(" A");
	for (int i = 0; i < n * n; ++i) vh_out_complex(a[i]);
	free(a); free(ri);
	return 0;
    }
    if (strcmp(op, "mldivide") == 0 || strcmp(op, "mrdivide") == 0) {	/* num mldivide m n A B */
	int m = (int)vh_parse_long(vh_tok[2]), n = (int)vh_parse_long(vh_tok[3]);
	bool left = op[1] == 'l';
	int an = left ? m : n;
	double complex *a, *b, *x, d;
	if (m < 0 || n < 0 || m > 64 || n > 64 || vh_ntok != 4 + 2 * an * an + 2 * m * n) return -1;
	a = parse_cvec(4, an * an);
	b = parse_cvec(4 + 2 * an * an, m * n);
	x = malloc(sizeof(double complex) * (m * n + 1));
	if (left) LIB(d = _vnacommon_mldivide(x, a, b, m, n));
	else LIB(d = _vnacommon_mrdivide(x, b, a, m, n));
	vh_out("ok");
	vh_out_complex(d);
	vh_out(" X");
	for (int i = 0; i < m * n; ++i) vh_out_complex(x[i]);
	free(a); free(b); free(x);
	return 0;
    }
    if (strcmp(op, "minverse") == 0) {
	int n = (int)vh_parse_long(vh_tok[2]);
	double complex *a, *x, d;
	if (n < 0 || n > 64 || vh_ntok != 3 + 2 * n * n) return -1;
	a = parse_cvec(3, n * n);
	x = malloc(sizeof(double complex) * (n * n + 1));
	LIB(d = _vnacommon_minverse(x, a, n));
	vh_out("ok");
	vh_out_complex(d);
	vh_out(" X");
	for (int i = 0; i < n * n; ++i) vh_out_complex(x[i]);
	free(a); free(x);
	return 0;
    }
    if (strcmp(op, "qrsolve") == 0) {		/* num qrsolve m n o A B : A m x n, B m x o, X n x o */
	int m = (int)vh_parse_long(vh_tok[2]), n = (int)vh_parse_long(vh_tok[3]), o = (int)vh_parse_long(vh_tok[4]);
	double complex *a, *b, *x;
	int rank;
	if (m < 0 || n < 0 || o < 0 || m > 64 || n > 64 || vh_ntok != 5 + 2 * m * n + 2 * m * o) return -1;
	a = parse_cvec(5, m * n);
	b = parse_cvec(5 + 2 * m * n, m * o);
	x = malloc(sizeof(double complex) * (n * o + 1));
	LIB(rank = _vnacommon_qrsolve(x, a, b, m, n, o));
	vh_out("ok %d X", rank);
	for (int i = 0; i < n * o; ++i) vh_out_complex(x[i]);
	free(a); free(b); free(x);
	return 0;
    }
    if (strcmp(op, "qrsolve2") == 0) {		/* num qrsolve2 m n o A B : _vnacommon_qr, then _vnacommon_qrsolve2 from its Q and R */
	int m = (int)vh_parse_long(vh_tok[2]), n = (int)vh_parse_long(vh_tok[3]), o = (int)vh_parse_long(vh_tok[4]);
	double complex *a, *b, *x, *q, *r;
	int rank;
	if (m < 0 || n < 0 || o < 0 || m > 64 || n > 64 || vh_ntok != 5 + 2 * m * n + 2 * m * o) return -1;
	a = parse_cvec(5, m * n);
	b = parse_cvec(5 + 2 * m * n, m * o);
	x = malloc(sizeof(double complex) * (n * o + 1));
	q = malloc(sizeof(double complex) * (m * m + 1));
	r = malloc(sizeof(double complex) * (m * n + 1));
	LIB(rank = _vnacommon_qr(a, q, r, m, n));
	LIB(_vnacommon_qrsolve2(x, q, r, b, m, n, o));
	vh_out("ok %d X", rank);
	for (int i = 0; i < n * o; ++i) vh_out_complex(x[i]);
	vh_out(" Q");
	for (int i = 0; i < m * m; ++i) vh_out_complex(q[i]);
	vh_out(" R");
	for (int i = 0; i < m * n; ++i) vh_out_complex(r[i]);
	free(a); free(b); free(x); free(q); free(r);
	return 0;
    }
    if (strcmp(op, "pvalue") == 0) {		/* num pvalue n x2 */
	extern double vh_chisq_pvalue(int n, double x2);
	int n = (int)vh_parse_long(vh_tok[2]);
	double x2 = vh_parse_double(vh_tok[3]), r;
	if (vh_ntok != 4 || n < 1) return -1;
	LIB(r = vh_chisq_pvalue(n, x2));
	vh_out("ok");
	vh_out_double(r);
	return 0;
    }
    if (strcmp(op, "rfi") == 0) {		/* num rfi n m seg x <n x's> <n complex y's> */
	int n = (int)vh_parse_long(vh_tok[2]), m = (int)vh_parse_long(vh_tok[3]);
	int seg = (int)vh_parse_long(vh_tok[4]);
	double x = vh_parse_double(vh_tok[5]);
	double *xs;
	double complex *ys, r;
	if (n < 1 || n > 256 || vh_ntok != 6 + n + 2 * n) return -1;
	xs = parse_dvec(6, n);
	ys = parse_cvec(6 + n, n);
	LIB(r = _vnacal_rfi(xs, ys, n, m, &seg, x));
	vh_out("ok");
	vh_out_complex(r);
	vh_out(" seg=%d", seg);
	free(xs); free(ys);
	return 0;
    }
    if (strcmp(op, "spline") == 0) {		/* num spline n <n+1 x's> <n+1 y's> <k queries> */
	int n = (int)vh_parse_long(vh_tok[2]);
	int k = vh_ntok - 3 - 2 * (n + 1);
	double *xs, *ys, (*cf)[3];
	int rc;
	if (n < 1 || n > 256 || k < 0) return -1;
	xs = parse_dvec(3, n + 1);
	ys = parse_dvec(3 + n + 1, n + 1);
	cf = malloc((n + 1) * sizeof(double [3]));	/* every coefficient of the n segments is the callee's to write */
#ifndef VH_MSAN
	memset(cf, 0xff, (n + 1) * sizeof(double [3]));
#endif
	errno = 0;
	LIB(rc = _vnacommon_spline_calc(n, xs, ys, cf));
	if (rc != 0) {
	    vh_out("fail %s", vh_errclass(errno));
	} else {
	    vh_out("ok");
	    for (int i = 0; i < k; ++i) {
		double r;
		LIB(r = _vnacommon_spline_eval(n, xs, ys, (const double (*)[3])cf, vh_parse_double(vh_tok[3 + 2 * (n + 1) + i])));
		vh_out_double(r);
	    }
	}
	free(xs); free(ys); free(cf);
	return 0;
    }
    return -1;
}
