#include "vh.h"
int vh_num(void) { return -1; }
